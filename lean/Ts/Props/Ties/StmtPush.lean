import Ts.Gen.PushGen
import Ts.Lemmas.DemuxQ
import Ts.Props.C07Q
/-!
# Tie: the translated loops of `Demultiplex::push` ARE the model's loops

`Ts/Gen/PushGen.lean` is regenerated from `/repo/src/demultiplex.rs` on every run.  This file proves it
equal to the hand-written transcription `innerQ / outerQ / pushModelQ / pushQ` (Ts/Model/DemuxQ.lean)
and hence — `pushModelQ_eq_pushSpecQ` — to the one-packet-at-a-time specification `pushSpecQ` that the
C06 / C07 / C18 theorems are stated about.
-/
set_option linter.unusedSimpArgs false
namespace Ts.Props.Ties.StmtPush
open Ts Ts.Demux Ts.DemuxQ Ts.Gen Ts.Lemmas.DemuxQ

variable {H C : Type}

/-- `if !contains { add_pid_filter }` is `ensureQ` -/
theorem tie_stmt_add_pid_filter (sem : SemQ H C) (t : Tab H) (c : C) (q : List (Change H)) (pid : Nat)
    (h : t.contains pid = false) :
    PushGen.add_pid_filter sem t c q pid = ensureQ sem t c q pid := by
  unfold PushGen.add_pid_filter ensureQ
  simp only [h]
  cases sem.construct c pid with
  | panic s => rfl
  | ok r => rfl

/-- "take the next packet; if its PID differs re-enter the outer loop, else go round again", whichever
way the comparison is written -/
private theorem next_pk (sem : SemQ H C) (pid : Nat)
    (K : Tab H → C → List (Change H) → Pk → List Pk → R (StQ H C)) (n : Nat)
    (ih : ∀ (t : Tab H) (c : C) (q : List (Change H)) (pk : Pk) (itr : List Pk),
      PushGen.loop_inner sem pid t c q pk itr K n = innerQ sem pid t c q pk itr K n)
    (t : Tab H) (c : C) (q : List (Change H)) (p : Pk) (r : List Pk) {lhs : R (StQ H C)}
    (hl : lhs = (if (p.pid != pid) = true then K t c q p r else PushGen.loop_inner sem pid t c q p r K n) ∨
          lhs = (if (pid != p.pid) = true then K t c q p r else PushGen.loop_inner sem pid t c q p r K n) ∨
          lhs = (if (p.pid == pid) = true then PushGen.loop_inner sem pid t c q p r K n else K t c q p r) ∨
          lhs = (if (pid == p.pid) = true then PushGen.loop_inner sem pid t c q p r K n else K t c q p r)) :
    lhs = (if (p.pid != pid) = true then K t c q p r else innerQ sem pid t c q p r K n) := by
  by_cases hp : p.pid = pid
  · have hp' : pid = p.pid := hp.symm
    rcases hl with h | h | h | h <;> simp [h, hp, ih] <;> simp [← hp, ih]
  · have hp' : ¬ pid = p.pid := fun h => hp h.symm
    rcases hl with h | h | h | h <;> simp [h, hp, hp', ih]

/-- the translated `'inner` loop is `innerQ`, for any continuation -/
theorem tie_stmt_inner (sem : SemQ H C) (pid : Nat)
    (K : Tab H → C → List (Change H) → Pk → List Pk → R (StQ H C)) :
    ∀ (fuel : Nat) (t : Tab H) (c : C) (q : List (Change H)) (pk : Pk) (itr : List Pk),
      PushGen.loop_inner sem pid t c q pk itr K fuel = innerQ sem pid t c q pk itr K fuel := by
  intro fuel
  induction fuel with
  | zero => intros; simp only [PushGen.loop_inner, innerQ]
  | succ n ih =>
    intro t c q pk itr
    unfold PushGen.loop_inner innerQ
    simp only [Pk.flagged]
    cases htei : pk.tei <;> cases hsc : pk.scrambled <;>
      simp only [Bool.or_self, Bool.or_true, Bool.true_or, Bool.or_false, Bool.false_eq_true, if_true, if_false, ite_true, ite_false, reduceIte]
    all_goals
      first
      | (cases itr with
         | nil => rfl
         | cons p r => exact next_pk sem pid K n ih _ _ _ p r (by first | exact Or.inl rfl | exact Or.inr (Or.inl rfl) | exact Or.inr (Or.inr (Or.inl rfl)) | exact Or.inr (Or.inr (Or.inr rfl))))
      | (cases hg : t.get pid with
         | none => rfl
         | some h =>
           simp only []
           cases hc : sem.consume h c pk with
           | panic s => rfl
           | ok r =>
             obtain ⟨h', c', chg⟩ := r
             simp only []
             cases he : (q ++ chg).isEmpty
             · cases itr <;> simp
             · have hq : q ++ chg = [] := List.isEmpty_iff.mp he
               simp only [hq, List.isEmpty_nil, Bool.not_true, Bool.false_eq_true, if_false, if_true]
               cases itr with
               | nil => rfl
               | cons p r => exact next_pk sem pid K n ih _ _ _ p r (by first | exact Or.inl rfl | exact Or.inr (Or.inl rfl) | exact Or.inr (Or.inr (Or.inl rfl)) | exact Or.inr (Or.inr (Or.inr rfl))))

/-- the translated `'outer` loop is `outerQ` -/
theorem tie_stmt_outer (sem : SemQ H C) :
    ∀ (fuel : Nat) (t : Tab H) (c : C) (q : List (Change H)) (pk : Pk) (itr : List Pk),
      PushGen.loop_outer sem fuel t c q pk itr = outerQ sem fuel t c q pk itr := by
  intro fuel
  induction fuel with
  | zero => intros; simp only [PushGen.loop_outer, outerQ]
  | succ n ih =>
    intro t c q pk itr
    have hK : PushGen.loop_outer sem n = outerQ sem n := by
      funext t c q pk itr; exact ih t c q pk itr
    unfold PushGen.loop_outer outerQ
    simp only [hK, tie_stmt_inner]
    cases hct : t.contains pk.pid
    · -- absent: `add_pid_filter`, then the `unwrap` finds what was just inserted
      simp only [Bool.not_false, Bool.not_true, Bool.false_eq_true, if_true, if_false, reduceIte,
        tie_stmt_add_pid_filter sem t c q pk.pid hct]
      cases he : ensureQ sem t c q pk.pid with
      | panic s => rfl
      | ok r =>
        obtain ⟨t1, c1, q1⟩ := r
        have hc := ensureQ_contains sem t c q pk.pid t1 c1 q1 he
        obtain ⟨h, hg⟩ := (Tab.contains_eq_true_iff t1 pk.pid).mp hc
        simp only [hg]
    · -- present: the `unwrap` succeeds
      obtain ⟨h, hg⟩ := (Tab.contains_eq_true_iff t pk.pid).mp hct
      simp only [Bool.not_true, Bool.not_false, Bool.false_eq_true, if_false, if_true, reduceIte, hg,
        ensureQ_of_contains sem t c q pk.pid hct]

/-- the translated body of `push` is `pushModelQ` -/
theorem tie_stmt_pushPks (sem : SemQ H C) (st : StQ H C) (pks : List Pk) :
    PushGen.pushPks sem st pks = pushModelQ sem st pks := by
  obtain ⟨t, c, q⟩ := st
  cases pks with
  | nil => rfl
  | cons pk rest => simp only [PushGen.pushPks, pushModelQ, tie_stmt_outer]

/-- the translated `Demultiplex::push` is the model's `pushQ` -/
theorem tie_stmt_push (sem : SemQ H C) (st : StQ H C) (buf : Bytes) (base : Nat) :
    PushGen.push sem st buf base = pushQ sem st buf base := by
  unfold PushGen.push pushQ
  cases frame buf base with
  | panic s => rfl
  | ok pks => exact tie_stmt_pushPks sem st pks

/-- CODE = SPEC: the loops of `/repo/src/demultiplex.rs`, as translated, dispatch one packet at a time -/
theorem code_push_is_spec (sem : SemQ H C) (st : StQ H C) (pks : List Pk) :
    PushGen.pushPks sem st pks = pushSpecQ sem st pks := by
  rw [tie_stmt_pushPks, pushModelQ_eq_pushSpecQ]

/-- successive calls of the translated `push` (what is pending at the end of one call is pending at the
start of the next) -/
def codePushAll (sem : SemQ H C) (st : StQ H C) : List Bytes → Nat → R (StQ H C)
  | [], _ => .ok st
  | b :: bs, base =>
    match PushGen.push sem st b base with
    | .panic s => .panic s
    | .ok st' => codePushAll sem st' bs (base + b.length)

theorem tie_stmt_pushAll (sem : SemQ H C) (bufs : List Bytes) :
    ∀ (st : StQ H C) (base : Nat), codePushAll sem st bufs base = pushAllQ sem st bufs base := by
  induction bufs with
  | nil => intros; rfl
  | cons b bs ih =>
    intro st base
    simp only [codePushAll, pushAllQ, tie_stmt_push]
    cases pushQ sem st b base with
    | panic s => rfl
    | ok st' => exact ih st' (base + b.length)

/-- **C07 about the translated code**: however the byte stream is cut into packet-aligned buffers (the
last one may be ragged), the loops of `demultiplex.rs` as translated reach the same table, context and
pending changeset as one `push` of the whole stream. -/
theorem code_chunking_irrelevant (sem : SemQ H C) (st : StQ H C) (bufs : List Bytes) (base : Nat)
    (h : ∀ c ∈ bufs.dropLast, c.length % 188 = 0) :
    codePushAll sem st bufs base = codePushAll sem st [bufs.flatten] base := by
  rw [tie_stmt_pushAll, tie_stmt_pushAll]
  exact Ts.Props.C07Q.chunking_irrelevantQ_general sem st bufs base h

/-- **C06 / C18 about the translated code**: one `push` = framing, then one packet at a time through
`specStepQ` (lookup-or-construct, drop flagged packets, consume, apply everything pending in order). -/
theorem code_push_refines_spec (sem : SemQ H C) (st : StQ H C) (buf : Bytes) (base : Nat) :
    PushGen.push sem st buf base =
      (match frame buf base with
       | .panic s => .panic s
       | .ok pks => pushSpecQ sem st pks) := by
  rw [tie_stmt_push]; exact Ts.Props.C07Q.push_refines_specQ sem st buf base

/-- non-vacuity: a two-packet stream on which the translated loop constructs a handler, keeps the change
queued by `construct` pending over a dropped packet and applies it with the next consumed one -/
example :
    let sem : SemQ Nat Nat :=
      { consume := fun h c _ => .ok (h + 1, c + 1, []),
        construct := fun c pid => .ok (pid, c, [Change.insert 7 99]) }
    let p1 : Pk := { bytes := [], off := 0, pid := 3, tei := true, scrambled := false }
    let p2 : Pk := { bytes := [], off := 188, pid := 3, tei := false, scrambled := false }
    (match PushGen.pushPks sem ([], 0, []) [p1] with
     | .ok (t, _, q) => (t.get 3, t.get 7, q.length) | .panic _ => (none, none, 0)) = (some 3, none, 1) ∧
    (match PushGen.pushPks sem ([], 0, []) [p1, p2] with
     | .ok (t, c, q) => (t.get 3, t.get 7, c, q.length) | .panic _ => (none, none, 0, 0)) = (some 4, some 99, 1, 0) := by
  decide

end Ts.Props.Ties.StmtPush
