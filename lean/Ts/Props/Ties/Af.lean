import Ts.Model.Pes
import Ts.Model.Tables
import Ts.Model.App
import Ts.Model.Values
import Ts.Gen.Consts
/-!
# Ties between the model's literals and constants regenerated from `/repo/src` — part `Af`

Audited with: C13 (so that a changed constant breaks the proof obligations of exactly the properties
it concerns). See `Ts/Props/Ties.lean` for the general explanation.
-/
namespace Ts.Props.Ties
open Ts Ts.Pes Ts.Tables Ts.Demux

/-- `AdaptationField::pcr` / `opcr`: `PCR_SIZE` -/
theorem tie_pcr_slice (buf : Bytes) :
    Af.pcr buf = (do
      let f ← Af.flags buf
      if Af.pcrFlag f then
        match ← Af.slice buf 1 (1 + Gen.pcrSize) with
        | .ok s => do let c ← Time.crefFromSlice s; pure (.ok c)
        | .error e => pure (.error e)
      else pure (.error .fieldNotPresent)) ∧
    (∀ f, Af.opcrOffset f = if Af.pcrFlag f then 1 + Gen.pcrSize else 1) ∧
    (∀ f, Af.spliceOffset f = Af.opcrOffset f + if Af.opcrFlag f then Gen.pcrSize else 0) :=
  ⟨rfl, fun _ => rfl, fun _ => rfl⟩

end Ts.Props.Ties
