import Ts.Gen.ItersGen
import Ts.Props.Ties.StmtPsi
/-!
# Statement-level tie — the PAT entry loop and the descriptor loops (audited with C16 and C17)

`Ts.Gen.ItersGen` is `ProgramIter::next` (`psi/pat.rs`) and `DescriptorIter::next`
(`descriptor/mod.rs`) as they read NOW, translated statement by statement by `tools/gen_iters.py`:
`Self → R (Self × Option Item)`, the remaining buffer after the call and what was yielded.  The
model's `patPrograms` / `descIter` run an iterator to exhaustion with `next` inlined; the theorems
below prove that they ARE the translated `next` iterated (`iterate`), for every fuel and every byte
string — so C16's `pat_entries` / `pat_roundtrip` and C17's `desc_iter_total` / `desc_iter_tiles` /
`desc_roundtrip` speak about the loop the source contains today.
-/
set_option linter.unusedSimpArgs false
namespace Ts.Props.Ties.StmtIters
open Ts Ts.Stmt Ts.Gen Ts.Gen.ItersGen Ts.Props.Ties.StmtPsi

/-- call `next` until it yields `None` (at most `fuel` times), collecting what it yields -/
def iterate {σ α : Type} (next : σ → R (σ × Option α)) : Nat → σ → R (List α)
  | 0, _ => .ok []
  | fuel+1, s =>
    next s >>= fun r =>
      match r.2 with
      | none => .ok []
      | some x => iterate next fuel r.1 >>= fun rest => .ok (x :: rest)

theorem iterate_empty {α : Type} (next : Self → R (Self × Option α)) (src : Option Nat)
    (h : next ⟨⟨[], src⟩⟩ = .ok (⟨⟨[], src⟩⟩, none)) (fuel : Nat) :
    iterate next fuel ⟨⟨[], src⟩⟩ = .ok [] := by
  cases fuel with
  | zero => rfl
  | succ n => unfold iterate; rw [h]; rfl

/-- one call of `ProgramIter::next`, in closed form -/
theorem pat_next (b : Bytes) (src : Option Nat) :
    ProgramIter.next ⟨⟨b, src⟩⟩ =
      (if b.isEmpty then .ok (⟨⟨b, src⟩⟩, none)
       else if b.length < 4 then .ok (⟨⟨b, src⟩⟩, none)
       else Tables.patEntryFromBytes (b.take 4) >>= fun e => .ok (⟨⟨b.drop 4, src.map (· + 4)⟩⟩, some e)) := by
  unfold ProgramIter.next
  simp only [Slice.len]
  -- the two "nothing left" tests, in whichever order the source makes them
  by_cases he : b.isEmpty = true <;> by_cases h4 : b.length < 4
  · simp only [he, h4, decide_true, if_true, R.pure_eq]
  · have : b.length = 0 := by simpa using he
    omega
  · simp only [he, h4, decide_true, Bool.false_eq_true, if_true, if_false, R.pure_eq]
  · have h4' : 4 ≤ b.length := by omega
    simp only [he, h4, decide_false, Bool.false_eq_true, if_false, upto_ok ⟨b, src⟩ 4 h4', from_ok ⟨b, src⟩ 4 h4',
      R.ok_bind, R.pure_eq]

/-- `ProgramIter`: the model's `patPrograms` is the translated `next` iterated -/
theorem tie_stmt_pat_programs (fuel : Nat) : ∀ (b : Bytes) (src : Option Nat),
    iterate ProgramIter.next fuel ⟨⟨b, src⟩⟩ = Tables.patPrograms fuel b := by
  induction fuel with
  | zero => intro b src; rfl
  | succ n ih =>
    intro b src
    unfold iterate Tables.patPrograms
    rw [pat_next]
    by_cases he : b.isEmpty = true
    · simp only [he, if_true, R.ok_bind]
    · simp only [he, Bool.false_eq_true, if_false]
      by_cases h4 : b.length < 4
      · simp only [h4, if_true, R.ok_bind]
      · simp only [h4, if_false, R.bind_assoc, R.ok_bind, R.pure_eq]
        cases Tables.patEntryFromBytes (List.take 4 b) with
        | panic m => rfl
        | ok e =>
          simp only [R.ok_bind]
          rw [ih (List.drop 4 b) (Option.map (· + 4) src)]

/-- one call of `DescriptorIter::next`, in closed form -/
theorem desc_next (b : Bytes) (src : Option Nat) :
    DescriptorIter.next ⟨⟨b, src⟩⟩ =
      (if b.isEmpty then .ok (⟨⟨b, src⟩⟩, none)
       else if b.length < 2 then .ok (⟨⟨[], src.map (· + 0)⟩⟩, some (.err .bufferTooShort))
       else if byteD b 1 > b.length - 2 then .ok (⟨⟨[], src.map (· + 0)⟩⟩, some (.err .notEnoughData))
       else Tables.coreFromBytes (b.take (byteD b 1 + 2)) >>= fun item =>
         .ok (⟨⟨b.drop (byteD b 1 + 2), src.map (· + (byteD b 1 + 2))⟩⟩, some item)) := by
  have hsub : ∀ (l : Bytes) (s : Option Nat), Slice.sub ⟨l, s⟩ 0 0 = .ok ⟨[], s.map (· + 0)⟩ := by
    intro l s; unfold Slice.sub sliceR; simp
  unfold DescriptorIter.next
  simp only [Slice.len, Slice.get]
  by_cases he : b.isEmpty = true
  · simp only [he, if_true, R.pure_eq]
  · simp only [he, Bool.false_eq_true, if_false]
    by_cases h2 : b.length < 2
    · simp only [h2, decide_true, if_true, hsub, R.ok_bind, R.pure_eq]
    · have h2' : 2 ≤ b.length := by omega
      simp only [h2, decide_false, Bool.false_eq_true, if_false, byteAt_ok b 0 (by omega), byteAt_ok b 1 (by omega),
        subR_ok b.length 2 h2', R.ok_bind, R.pure_eq]
      by_cases hl : byteD b 1 > b.length - 2
      · simp only [hl, decide_true, if_true, hsub, R.ok_bind]
      · have hle : byteD b 1 + 2 ≤ b.length := by omega
        simp only [hl, decide_false, Bool.false_eq_true, if_false, upto_ok ⟨b, src⟩ _ hle, from_ok ⟨b, src⟩ _ hle,
          R.ok_bind]

/-- `DescriptorIter`: the model's `descIter` is the translated `next` iterated -/
theorem tie_stmt_desc_iter (fuel : Nat) : ∀ (b : Bytes) (src : Option Nat),
    iterate DescriptorIter.next fuel ⟨⟨b, src⟩⟩ = Tables.descIter fuel b := by
  induction fuel with
  | zero => intro b src; rfl
  | succ n ih =>
    intro b src
    have hempty : ∀ s : Option Nat, DescriptorIter.next ⟨⟨[], s⟩⟩ = .ok (⟨⟨[], s⟩⟩, none) := by
      intro s; rw [desc_next]; rfl
    unfold iterate Tables.descIter
    rw [desc_next]
    by_cases he : b.isEmpty = true
    · simp only [he, if_true, R.ok_bind]
    · simp only [he, Bool.false_eq_true, if_false]
      by_cases h2 : b.length < 2
      · simp only [h2, if_true, R.ok_bind]
        rw [iterate_empty _ _ (hempty _)]
        rfl
      · have h2' : 2 ≤ b.length := by omega
        simp only [h2, if_false, byteAt_ok b 0 (by omega), byteAt_ok b 1 (by omega), subR_ok b.length 2 h2',
          R.ok_bind, R.pure_eq]
        by_cases hl : byteD b 1 > b.length - 2
        · simp only [hl, if_true, R.ok_bind]
          rw [iterate_empty _ _ (hempty _)]
          rfl
        · have hle : byteD b 1 + 2 ≤ b.length := by omega
          have ha : assertR (decide (byteD b 1 + 2 ≤ b.length)) "split_at: mid > len" = .ok () := by
            simp [assertR, hle]
          simp only [hl, if_false, R.bind_assoc, R.ok_bind, ha]
          cases Tables.coreFromBytes (List.take (byteD b 1 + 2) b) with
          | panic m => rfl
          | ok item =>
            simp only [R.ok_bind]
            rw [ih (List.drop (byteD b 1 + 2) b) (Option.map (· + (byteD b 1 + 2)) src)]

/-- the loops as the library runs them: `PatSection::programs()` / a descriptor loop over `b` -/
theorem code_pat_programs_all (b : Bytes) (src : Option Nat) :
    iterate ProgramIter.next (b.length + 1) ⟨⟨b, src⟩⟩ = Tables.patProgramsAll b :=
  tie_stmt_pat_programs _ b src

theorem code_desc_iter_all (b : Bytes) (src : Option Nat) :
    iterate DescriptorIter.next (b.length + 1) ⟨⟨b, src⟩⟩ = Tables.descIterAll b :=
  tie_stmt_desc_iter _ b src

end Ts.Props.Ties.StmtIters
