import Ts.Gen.TablesGen
import Ts.Props.C16
import Ts.Lemmas.C01
import Ts.Props.Ties.StmtIters
/-!
# Statement-level tie — the PAT table processor (audited with C05 and C10)

`Ts.Gen.TablesGen.PatProcessor` is `PatProcessor::{default, section, new_table, remove_outdated}` of
`/repo/src/demultiplex.rs` as they read NOW, translated statement by statement by
`tools/gen_tables.py`; its `for desc in sect.programs()` loop runs the TRANSLATED iterator
(`ItersGen.ProgramIter.next`) interleaved with the loop body.  `tie_stmt_pat_section` proves that,
with the application's `construct` plugged in, for EVERY context, registered set, queue, header and
section data (the header's `table_id` being the data's first byte — `table_calls_hdrOk`), the
translated processor computes exactly the model's `App.patSection`: the same context (handler
requests in the same order with the same contents), the same registered set, and the model's changes
appended to the queue in the same order.  Together with `Ts/Props/Ties/StmtPsiApp.lean` the model's
PAT handler is, end to end, code translated from the source — up to the application's `construct`.
-/
set_option linter.unusedSimpArgs false
namespace Ts.Props.Ties.StmtTables
open Ts Ts.Stmt Ts.StmtVec Ts.Demux Ts.App Ts.Gen Ts.Gen.TablesGen Ts.Props.Ties.StmtPsi Ts.Props.Ties.StmtIters

/-- the iterator never panicking, the interleaved loop is the loop over what it yields -/
theorem forIter_of_iterate {ι α σ : Type} (next : ι → R (ι × Option α)) (f : α → σ → R σ) :
    ∀ (fuel : Nat) (it : ι) (s : σ) (l : List α), iterate next fuel it = .ok l →
      forIter next fuel it s f = forEach l s f := by
  intro fuel
  induction fuel with
  | zero => intro it s l h; cases h; rfl
  | succ n ih =>
    intro it s l h
    unfold iterate at h
    unfold forIter
    cases hn : next it with
    | panic m => rw [hn] at h; cases h
    | ok r =>
      rcases r with ⟨it', o⟩
      rw [hn] at h
      simp only [R.ok_bind] at h
      cases o with
      | none => cases h; rfl
      | some x =>
        simp only [] at h
        cases hi : iterate next n it' with
        | panic m => rw [hi] at h; cases h
        | ok rest =>
          rw [hi] at h
          simp only [R.ok_bind] at h
          cases h
          simp only []
          unfold forEach
          cases hf : f x s with
          | panic m => rfl
          | ok s' => exact ih it' s' rest hi

/-- the application's `construct` as the dispatcher sees it -/
def appConstruct (c : Ctx) (r : Req) : R (Handler × Ctx) := .ok (App.construct c r)

/-- the body of the `for desc in sect.programs()` loop, as translated, with `appConstruct` plugged in -/
def patBody (desc : Tables.PatEntry) (st : PatProcessor × Ctx × List (Change Handler) × List Nat) :
    R (PatProcessor × Ctx × List (Change Handler) × List Nat) := do
  let (self, ctx, q, pids_seen) := st
  let (filter, ctx) ← (match desc with
    | .program program_number pid => appConstruct ctx (App.Req.pmt pid program_number)
    | .network pid => appConstruct ctx (App.Req.nit pid))
  let q := q ++ [Change.insert desc.pid filter]
  let pids_seen := pids_seen ++ [desc.pid]
  let self := { self with filters_registered := self.filters_registered ++ [desc.pid] }
  pure (self, ctx, q, pids_seen)

/-- the step of the model's fold in `App.patSection` -/
def patStep (acc : Ctx × List (Change Handler)) (e : Tables.PatEntry) : Ctx × List (Change Handler) :=
  let req := match e with
    | .program pn pid => Req.pmt pid pn
    | .network pid => Req.nit pid
  let (h, c') := construct acc.1 req
  (c', acc.2 ++ [Change.insert e.pid h])

theorem patBody_eq (e : Tables.PatEntry) (reg : List Nat) (c : Ctx) (q : List (Change Handler)) (seen : List Nat) :
    patBody e (⟨reg⟩, c, q, seen)
      = .ok (⟨reg ++ [e.pid]⟩, (patStep (c, q) e).1, (patStep (c, q) e).2, seen ++ [e.pid]) := by
  cases e <;> rfl

/-- the loop body of `new_table` over a list of entries is the model's fold -/
theorem pat_loop (entries : List Tables.PatEntry) : ∀ (reg : List Nat) (c : Ctx) (q : List (Change Handler)) (seen : List Nat),
    forEach entries ((⟨reg⟩ : PatProcessor), c, q, seen) patBody
      = .ok (⟨reg ++ entries.map Tables.PatEntry.pid⟩, (entries.foldl patStep (c, q)).1,
          (entries.foldl patStep (c, q)).2, seen ++ entries.map Tables.PatEntry.pid) := by
  induction entries with
  | nil => intro reg c q seen; simp [forEach]
  | cons e es ih =>
    intro reg c q seen
    unfold forEach
    rw [patBody_eq]
    simp only []
    rw [ih]
    simp [List.append_assoc]

/-- the fold started with a queue `q` is the fold started with `[]`, `q` prepended -/
theorem pat_fold_queue (entries : List Tables.PatEntry) : ∀ (c : Ctx) (q : List (Change Handler)),
    entries.foldl patStep (c, q)
      = ((entries.foldl patStep (c, [])).1, q ++ (entries.foldl patStep (c, [])).2) := by
  induction entries with
  | nil => intro c q; simp
  | cons e es ih =>
    intro c q
    simp only [List.foldl_cons]
    have h1 : patStep (c, q) e = ((patStep (c, []) e).1, q ++ (patStep (c, []) e).2) := by
      cases e <;> simp [patStep]
    rw [h1, ih _ (q ++ _), ih (patStep (c, []) e).1 (patStep (c, []) e).2]
    simp [List.append_assoc]

/-- the body of the `for pid in registered.difference(&seen)` loop, as translated -/
def remBody (pid : Nat) (q : List (Change Handler)) : R (List (Change Handler)) := do
  let t ← Tables.pidNew pid
  pure (q ++ [Change.remove t])

/-- the model's per-PID removal -/
def remItem (p : Nat) : R (Change Handler) := do
  let q ← Tables.pidNew p
  pure (Change.remove (H := Handler) q)

theorem remBody_eq (p : Nat) (q : List (Change Handler)) :
    remBody p q = (Tables.pidNew p >>= fun t => R.ok (q ++ [Change.remove t])) := rfl
theorem remItem_eq (p : Nat) : remItem p = (Tables.pidNew p >>= fun t => R.ok (Change.remove (H := Handler) t)) := rfl

/-- `remove_outdated`: the removals are the model's `mapM`, appended to the queue in order -/
theorem remove_loop (l : List Nat) : ∀ (q : List (Change Handler)),
    forEach l q remBody = (l.mapM remItem >>= fun rem => R.ok (q ++ rem)) := by
  induction l with
  | nil => intro q; simp [forEach, List.mapM_nil]
  | cons p ps ih =>
    intro q
    unfold forEach
    rw [List.mapM_cons, remBody_eq p q, remItem_eq p]
    cases Tables.pidNew p with
    | panic m => rfl
    | ok t =>
      simp only [R.ok_bind, bind_pure_comp, pure_bind]
      rw [ih (q ++ [Change.remove t])]
      cases List.mapM remItem ps with
      | panic m => rfl
      | ok rem => simp [List.append_assoc]

attribute [local irreducible] App.outdated

/-- `PatProcessor::remove_outdated` -/
theorem tie_stmt_remove_outdated (reg seen : List Nat) (q : List (Change Handler)) :
    PatProcessor.remove_outdated (H := Handler) ⟨reg⟩ q seen
      = ((outdated reg seen).mapM remItem >>= fun rem => R.ok ((⟨seen⟩ : PatProcessor), q ++ rem)) := by
  unfold PatProcessor.remove_outdated
  show (forEach (outdated reg seen) q remBody >>= fun q' => R.ok ((⟨seen⟩ : PatProcessor), q')) = _
  rw [remove_loop]
  cases List.mapM remItem (outdated reg seen) <;> rfl

/-- `PatProcessor::new_table`, closed form: the translated loop over the translated iterator is the
model's fold over the parsed entries, the removals are the model's -/
theorem tie_stmt_pat_new_table (reg : List Nat) (c : Ctx) (q : List (Change Handler)) (h : Psi.Header) (sect : Slice) :
    PatProcessor.new_table appConstruct ⟨reg⟩ c q h sect
      = (if (0 != h.tableId) = true then R.ok ((⟨reg⟩ : PatProcessor), c, q)
         else
           Tables.patProgramsAll sect.bytes >>= fun entries =>
             (outdated (reg ++ entries.map Tables.PatEntry.pid) (entries.map Tables.PatEntry.pid)).mapM remItem >>= fun rem =>
               R.ok ((⟨entries.map Tables.PatEntry.pid⟩ : PatProcessor), (entries.foldl patStep (c, [])).1,
                 q ++ (entries.foldl patStep (c, [])).2 ++ rem)) := by
  unfold PatProcessor.new_table
  by_cases ht : (0 != h.tableId) = true
  · simp only [ht, if_true, R.pure_eq]
  · simp only [ht, Bool.false_eq_true, if_false]
    have htot := (Ts.Props.C16.pat_entries sect.bytes).1
    have hit : iterate ItersGen.ProgramIter.next (sect.len + 1) ⟨sect⟩ = .ok (Spec.TableSpec.specPat sect.bytes) := by
      rcases sect with ⟨b, src⟩
      exact (code_pat_programs_all b src).trans htot
    show (forIter ItersGen.ProgramIter.next (sect.len + 1) ⟨sect⟩ ((⟨reg⟩ : PatProcessor), c, q, ([] : List Nat)) patBody
        >>= fun st => PatProcessor.remove_outdated st.1 st.2.2.1 st.2.2.2 >>= fun r => R.ok (r.1, st.2.1, r.2)) = _
    rw [forIter_of_iterate _ _ _ _ _ _ hit, pat_loop, htot]
    simp only [R.ok_bind, List.nil_append]
    rw [tie_stmt_remove_outdated, pat_fold_queue]
    simp only [R.bind_assoc, R.ok_bind]

/-- TIE: `PatProcessor::section` with the application's `construct` IS the model's `App.patSection`,
the model's changes appended to whatever was already queued -/
theorem tie_stmt_pat_section (c : Ctx) (reg : List Nat) (q : List (Change Handler)) (h : Psi.Header) (d : Slice)
    (hh : h.tableId = byteD d.bytes 0) :
    PatProcessor.«section» appConstruct ⟨reg⟩ c q h d
      = rmap (fun r => ((⟨r.2.1⟩ : PatProcessor), r.1, q ++ r.2.2)) (App.patSection c reg d.bytes) := by
  unfold PatProcessor.«section» App.patSection
  simp only [Slice.len]
  by_cases h4 : 4 ≤ d.bytes.length
  · simp only [subR_ok _ _ h4, R.ok_bind, Slice.sub, R.bind_assoc, R.pure_eq]
    show (sliceR d.bytes 8 (d.bytes.length - 4) >>= fun x => PatProcessor.new_table appConstruct ⟨reg⟩ c q h ⟨x, d.src.map (· + 8)⟩) = _
    cases sliceR d.bytes 8 (d.bytes.length - 4) with
    | panic m => rfl
    | ok body =>
      simp only [R.ok_bind, byteAt_ok d.bytes 0 (by omega), tie_stmt_pat_new_table, hh]
      by_cases ht : (byteD d.bytes 0 != 0) = true
      · have ht' : (0 != byteD d.bytes 0) = true := by
          simp only [bne_iff_ne, ne_eq] at ht ⊢; omega
        simp only [ht, ht', if_true, R.pure_eq, rmap_ok, List.append_nil]
      · have ht' : ¬ (0 != byteD d.bytes 0) = true := by
          simp only [bne_iff_ne, ne_eq, Decidable.not_not] at ht ⊢; omega
        simp only [ht, ht', Bool.false_eq_true, if_false, rmap_bind]
        cases Tables.patProgramsAll body with
        | panic m => rfl
        | ok entries =>
          simp only [R.ok_bind]
          show (List.mapM remItem _ >>= _) = (List.mapM remItem _ >>= _)
          cases List.mapM remItem (outdated (reg ++ List.map Tables.PatEntry.pid entries) (List.map Tables.PatEntry.pid entries)) with
          | panic m => rfl
          | ok rem =>
            simp only [R.ok_bind, R.pure_eq, rmap_ok, List.append_assoc]
            rfl
  · have : subR d.bytes.length 4 = .panic "attempt to subtract with overflow" := by
      unfold subR; simp [h4]
    simp only [this, R.panic_bind, rmap_panic]

/-- `PatProcessor::default`: nothing registered -/
theorem tie_stmt_pat_default : (PatProcessor.default).filters_registered = [] := rfl

end Ts.Props.Ties.StmtTables
