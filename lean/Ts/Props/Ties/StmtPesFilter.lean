import Ts.Gen.PesFilterGen
import Ts.Lemmas.C08
/-!
# Statement-level tie — the PES packet filter (audited with C08 and C09)

`Ts.Gen.PesFilterGen.consume` / `is_continuous` are `PesPacketFilter::consume` / `is_continuous` of
`/repo/src/pes.rs` as they read NOW, translated statement by statement by `tools/gen_stmts.py`
(assignments to `self.state` / `self.ccounter`, consumer callbacks appended to a list, `if`,
`if let`, `match self.state`), over an abstract record of the observations the code makes of the
packet.  `tie_stmt_consume` proves that, for EVERY filter state, stored counter and packet
observation, the translated function computes exactly what the model's `stepPure` computes — the
function `Ts.Lemmas.C08.consume_eq` shows the model's `consume` to be on every 188-byte packet —
and `code_consume` composes the two: the model's `consume` IS the translated source function applied
to the packet's decoded observations.  The proof is a case split over the finite observation space
followed by evaluation, so it does not depend on how the source arranges its `if`s.
-/
namespace Ts.Props.Ties.Stmt
open Ts Ts.PesFilter Ts.Lemmas.C08 Ts.Gen

def stOf : PesFilterGen.PesState → St
  | .Begin => .begin
  | .Started => .started
  | .IgnoreRest => .ignoreRest

def stTo : St → PesFilterGen.PesState
  | .begin => .Begin
  | .started => .Started
  | .ignoreRest => .IgnoreRest

theorem stOf_stTo (s : St) : stOf (stTo s) = s := by cases s <;> rfl

/-- consumer callbacks as the model's events; the slice argument is a range of the packet -/
def evOf : PesFilterGen.Call (Nat × Nat) → Ev
  | .continuity_error => .ccErr
  | .end_packet => .endPkt
  | .start_stream => .start
  | .begin_packet r => .beginPkt r.1 r.2
  | .continue_packet r => .cont r.1 r.2

/-- the observations `consume` makes of a packet, from the decoded inputs of `stepPure`:
`payload()` is the range `pay`, `is_empty()` is "length 0", `PesHeader::from_bytes(payload)` wraps the
same slice when it accepts it, `continuity_counter().follows(c)` is the model's `follows` -/
def pkOf (us hp : Bool) (n : Nat) (pay : Option (Nat × Nat)) (hdr : Bool) : PesFilterGen.Packet (Nat × Nat) :=
  { has_payload := hp, cc_follows := fun c => Packet.follows n c, cc_count := n, pusi := us,
    payload := pay, payload_is_empty := fun r => r.2 == 0,
    header_of := fun r => if hdr then some r else none }

/-- the result of the translated `consume` in the model's vocabulary -/
def outOf (s : PesFilterGen.Self (Nat × Nat)) : F × List Ev :=
  (⟨s.ccounter, stOf s.state⟩, s.calls.map evOf)

theorem tie_stmt_is_continuous (st : St) (fc : Option Nat) (us hp : Bool) (n : Nat)
    (pay : Option (Nat × Nat)) (hdr : Bool) :
    PesFilterGen.is_continuous ⟨stTo st, fc, []⟩ (pkOf us hp n pay hdr) = continuous fc hp n := by
  cases fc <;> cases hp <;> rfl

theorem tie_stmt_consume (st : St) (fc : Option Nat) (us hp : Bool) (n : Nat)
    (pay : Option (Nat × Nat)) (hdr : Bool) :
    outOf (PesFilterGen.consume ⟨stTo st, fc, []⟩ (pkOf us hp n pay hdr))
      = stepPure ⟨fc, st⟩ us hp n pay hdr := by
  have hc := tie_stmt_is_continuous st fc us hp n pay hdr
  unfold PesFilterGen.consume stepPure
  rw [hc]
  generalize continuous fc hp n = c
  cases st <;> cases c <;> cases us <;> cases hdr <;> rcases pay with _ | ⟨o, l⟩ <;>
    first
      | rfl
      | (by_cases hl : l = 0 <;> simp [outOf, pkOf, stTo, stOf, evOf, hl])

/-- the model's `consume`, on every 188-byte packet and from every filter state, IS the translated
source function applied to the packet's decoded observations -/
theorem code_consume (f : F) (p : Bytes) (h : p.length = 188) :
    consume f p = .ok (outOf (PesFilterGen.consume ⟨stTo f.st, f.cc, []⟩
      (pkOf (usOf p) (hpOf p) (ccOf p) (payOf p) (hdrOf p)))) := by
  rw [tie_stmt_consume]
  exact consume_eq f p h

/-- `PesPacketFilter::new`: no stored counter, state `Begin`, nothing called -/
theorem tie_stmt_new : outOf (PesFilterGen.new : PesFilterGen.Self (Nat × Nat)) = (({} : F), []) := rfl

/-- a whole run of the model is the translated function folded over the packets' observations -/
def genRun (s : PesFilterGen.Self (Nat × Nat)) : List Bytes → PesFilterGen.Self (Nat × Nat)
  | [] => s
  | p :: ps => genRun (PesFilterGen.consume s (pkOf (usOf p) (hpOf p) (ccOf p) (payOf p) (hdrOf p))) ps

/-- non-vacuity / evaluation: unit start with a recognisable header, a continuation, a counter
break, a fresh unit start — `start, begin, cont, ccErr, begin` (no `end` after the error closed the
packet) -/
example :
    let pk (us hp : Bool) (n : Nat) (hdr : Bool) := pkOf us hp n (some (4, 184)) hdr
    let s0 : PesFilterGen.Self (Nat × Nat) := PesFilterGen.new
    let s1 := PesFilterGen.consume s0 (pk true true 3 true)
    let s2 := PesFilterGen.consume s1 (pk false true 4 true)
    let s3 := PesFilterGen.consume s2 (pk false true 9 true)
    let s4 := PesFilterGen.consume s3 (pk true true 10 true)
    s4.calls.map evOf = [.start, .beginPkt 4 184, .cont 4 184, .ccErr, .beginPkt 4 184] := by decide

end Ts.Props.Ties.Stmt
