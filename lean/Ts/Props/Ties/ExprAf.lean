import Ts.Refl.Tie
import Ts.Gen.Exprs
import Ts.Model.Af
/-!
# Expression ties — adaptation field and its extension (audited with C13)

See `Ts/Props/Ties/ExprTime.lean` for the method.  `Ts.Gen.Expr.af_*`, `ext_*` are translated from
`/repo/src/packet.rs` on every run.
-/
namespace Ts.Props.Ties.Expr
open Ts Ts.Refl Ts.Gen.Expr Ts.Af

/-- the five optional-field flags and the three extension flags, as predicates of the flags byte -/
theorem tie_expr_af_flags : ∀ x : Fin 256,
    af_pcr_flag (envL [x.val]) = Af.pcrFlag x.val
    ∧ af_opcr_flag (envL [x.val]) = Af.opcrFlag x.val
    ∧ af_splice_flag (envL [x.val]) = Af.spliceFlag x.val
    ∧ af_private_flag (envL [x.val]) = Af.privFlag x.val
    ∧ af_ext_flag (envL [x.val]) = Af.extFlag x.val := by decide +kernel

theorem tie_expr_ext_flags : ∀ x : Fin 256,
    ext_ltw_flag (envL [x.val]) = Af.ltwFlag x.val
    ∧ ext_piecewise_flag (envL [x.val]) = Af.piecewiseFlag x.val
    ∧ ext_seamless_flag (envL [x.val]) = Af.seamlessFlag x.val := by decide +kernel

/-- every flag accessor reads byte 0 of its slice and nothing else -/
theorem tie_expr_af_flags_index : ∀ x : Fin 256,
    af_pcr_flag (envL [x.val, 0xff]) = af_pcr_flag (envL [x.val])
    ∧ af_opcr_flag (envL [x.val, 0xff]) = af_opcr_flag (envL [x.val])
    ∧ af_splice_flag (envL [x.val, 0xff]) = af_splice_flag (envL [x.val])
    ∧ af_private_flag (envL [x.val, 0xff]) = af_private_flag (envL [x.val])
    ∧ af_ext_flag (envL [x.val, 0xff]) = af_ext_flag (envL [x.val])
    ∧ ext_ltw_flag (envL [x.val, 0xff]) = ext_ltw_flag (envL [x.val])
    ∧ ext_piecewise_flag (envL [x.val, 0xff]) = ext_piecewise_flag (envL [x.val])
    ∧ ext_seamless_flag (envL [x.val, 0xff]) = ext_seamless_flag (envL [x.val]) := by decide +kernel

def mDiscontinuity (e : Env) : Bool := e 0 &&& 0b1000_0000 != 0
def mRandomAccess (e : Env) : Bool := e 0 &&& 0b0100_0000 != 0
def mEsPriority (e : Env) : Nat := (e 0 &&& 0b10_0000) >>> 5

theorem tie_expr_af_indicators : ∀ x : Fin 256,
    af_discontinuity (envL [x.val, 0xff]) = mDiscontinuity (envL [x.val])
    ∧ af_random_access (envL [x.val, 0xff]) = mRandomAccess (envL [x.val])
    ∧ af_es_priority (envL [x.val, 0xff]) = mEsPriority (envL [x.val]) := by decide +kernel

theorem tie_model_discontinuity (buf : Bytes) :
    Af.discontinuity buf = (do let f ← Af.flags buf; pure (mDiscontinuity (envL [f]))) := rfl
theorem tie_model_random_access (buf : Bytes) :
    Af.randomAccess buf = (do let f ← Af.flags buf; pure (mRandomAccess (envL [f]))) := rfl
theorem tie_model_es_priority (buf : Bytes) :
    Af.esPriority buf = (do let f ← Af.flags buf; pure (mEsPriority (envL [f]))) := rfl
theorem tie_model_flags (buf : Bytes) : Af.flags buf = byteAt buf 0 := rfl

/-! ### the flag-dependent offset chains (control flow translated from the source: `if`, calls) -/

/-- `opcr_offset`, `splice_countdown_offset`, `transport_private_data_offset` as functions of the
flags byte -/
theorem tie_expr_af_offsets : ∀ x : Fin 256,
    af_opcr_offset (envL [x.val]) = Af.opcrOffset x.val
    ∧ af_splice_offset (envL [x.val]) = Af.spliceOffset x.val
    ∧ af_private_offset (envL [x.val]) = Af.privOffset x.val := by decide +kernel

/-- `piecewise_rate_offset`, `seamless_splice_offset` as functions of the extension's flags byte -/
theorem tie_expr_ext_offsets : ∀ x : Fin 256,
    ext_piecewise_offset (envL [x.val]) = Af.piecewiseOffset x.val
    ∧ ext_seamless_offset (envL [x.val]) = Af.seamlessOffset x.val := by decide +kernel

/-! ### extension fields -/

def mLtwValid (e : Env) : Bool := e 0 &&& 0b1000_0000 != 0
def mLtwOffset (e : Env) : Nat := ((e 0 &&& 0b0111_1111) <<< 8) ||| e 1
def mPiecewise (e : Env) : Nat := ((e 0 &&& 0b0011_1111) <<< 16) ||| (e 1 <<< 8) ||| e 2
def mSpliceType (e : Env) : Nat := e 0 >>> 4

theorem tie_expr_ext_ltw_valid : ∀ x : Fin 256,
    ext_ltw_valid (envL [x.val, 0xff]) = mLtwValid (envL [x.val]) := by decide +kernel
theorem tie_expr_ext_ltw_offset : ∀ l : List Nat, l.length ≤ 2 → (∀ x ∈ l, x < 256) →
    ext_ltw_offset (envL l) = mLtwOffset (envL l) := by tie_linear 2
theorem tie_expr_ext_piecewise_rate : ∀ l : List Nat, l.length ≤ 3 → (∀ x ∈ l, x < 256) →
    ext_piecewise_rate (envL l) = mPiecewise (envL l) := by tie_linear 3
theorem tie_expr_ext_splice_type : ∀ x : Fin 256,
    ext_splice_type (envL [x.val, 0xff]) = mSpliceType (envL [x.val]) := by decide +kernel

theorem tie_model_ltw (buf : Bytes) : Af.ltwOffset buf = (do
    let f ← Af.flags buf
    if Af.ltwFlag f then
      match ← Af.slice buf 1 3 with
      | .error e => pure (.error e)
      | .ok dat => do
        let d0 ← byteAt dat 0
        let valid := mLtwValid (envL [d0])
        if valid then do
          let d0' ← byteAt dat 0
          let d1 ← byteAt dat 1
          pure (.ok (some (mLtwOffset (envL [d0', d1]))))
        else pure (.ok none)
    else pure (.error .fieldNotPresent)) := rfl

theorem tie_model_piecewise (buf : Bytes) : Af.piecewiseRate buf = (do
    let f ← Af.flags buf
    if Af.piecewiseFlag f then
      let off := Af.piecewiseOffset f
      match ← Af.slice buf off (off + 3) with
      | .error e => pure (.error e)
      | .ok dat => do
        let d0 ← byteAt dat 0; let d1 ← byteAt dat 1; let d2 ← byteAt dat 2
        pure (.ok (mPiecewise (envL [d0, d1, d2])))
    else pure (.error .fieldNotPresent)) := rfl

theorem tie_model_seamless (buf : Bytes) : Af.seamlessSplice buf = (do
    let f ← Af.flags buf
    if Af.seamlessFlag f then
      let off := Af.seamlessOffset f
      match ← Af.slice buf off (off + 5) with
      | .error e => pure (.error e)
      | .ok dat => do
        let d0 ← byteAt dat 0
        let spliceType := mSpliceType (envL [d0])
        match ← Time.fromBytes dat with
        | .error e => pure (.error (.spliceTimestampError e))
        | .ok v => pure (.ok (spliceType, v))
    else pure (.error .fieldNotPresent)) := rfl

end Ts.Props.Ties.Expr
