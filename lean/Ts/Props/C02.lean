import Ts.Spec.PesMux
import Ts.Lemmas.C02
import Ts.Lemmas.C02b
import Ts.Lemmas.C02c
import Ts.Props.C06
import Ts.Gen.Tables
/-!
# C02 — PES payload conservation through the transport multiplex

For any PES packet built by the independent encoder `encodePes` (`Ts/Spec/PesMux.lean`) and spread
over transport packets by any `WellFormedPlan` (arbitrary adaptation-field stuffing in any packet,
payload-less packets in between, PES header wholly inside the first packet):

* `pes_conservation` — `PesFilter.run` (the model of `PesPacketFilter::consume`) yields exactly
  `start`/`end_packet` as the previous state demands, one `begin_packet` with the first payload,
  one `continue_packet` per payload-carrying continuation with exactly its payload range, nothing
  for payload-less packets, no `continuity_error`; the bytes handed over concatenate to
  `encodePes pes`, and (payload exposed by the header) ++ (continuation slices) = `pes.payload`.
* `begin_reports_header` — `App.beginInfo` (what the harness application reads from the header
  passed to `begin_packet`) reports the multiplexed stream id, declared length, PTS/DTS and the
  exposed payload range; `es_events_*` give the application events with global ranges.
* `next_pes_closes_previous`, `pes_stream_conservation` — sequences of PES packets.
* `not_attributed_to_other_pid` (+ `frame_step`, `pes_step`, `interleaved_plan`) — through the
  dispatcher (`Demux.pushSpec`, which `Demultiplex::push` refines by `C06.push_refines_spec`):
  interleaved packets of other PIDs do not touch the PES handler's slot, PROVIDED the run is quiet
  for that slot (`QuietAlong`, a predicate on the actual run: the handlers that consume those
  packets queue no change naming the slot).
* `quiet_of_benign_traffic`, `not_attributed_among_es_and_repeated_tables` — the same from
  hypotheses on the INPUT and the table at the start: the other packets belong to other elementary
  streams, are repetitions of the tables in force (C10), or go to recorders without a scripted
  action (`Benign`).
* `queuesNothingFor_unsat` — why an earlier hypothesis (`QueuesNothingFor`, quantified over all
  handlers and contexts) was replaced: it is false for every packet.
-/
namespace Ts.Props.C02
open Ts Ts.Packet Ts.PesFilter Ts.Demux Ts.Spec Ts.Spec.PesMux Ts.Lemmas.C02

/-! ### one PES packet -/

/-- MAIN.  `f` is ANY filter state (`begin`, `started`, `ignoreRest`) whose stored counter, if any,
is the predecessor of the first packet's.  No hypothesis on `pes` is needed. -/
theorem pes_conservation (pes : PesPkt) (pl : Plan) (f : F)
    (hpl : WellFormedPlan pes pl) (hcc : ∀ c ∈ f.cc, tpCc pl.first = (c + 1) % 16) :
    ∃ o l, tpPayload pl.first = some (o, l) ∧ o + l = 188 ∧ headerLen pes ≤ l ∧
      -- the callbacks, packet by packet, and the final state
      PesFilter.run f (pl.first :: pl.conts) =
        .ok (⟨some pl.lastCc, .started⟩,
             (openEvs f.st ++ [Ev.beginPkt o l]) :: pl.conts.map contEvs) ∧
      -- nothing lost, duplicated or reordered: the ranges handed over, in order, are the PES packet
      delivered (pl.first :: pl.conts) ((openEvs f.st ++ [Ev.beginPkt o l]) :: pl.conts.map contEvs)
        = encodePes pes ∧
      rangeBytes pl.first (o, l) ++ (pl.conts.map tpPayloadBytes).flatten = encodePes pes ∧
      -- (payload exposed by the header) ++ (continuation slices) = the PES payload
      rangeBytes pl.first (o + headerLen pes, l - headerLen pes)
        ++ (pl.conts.map tpPayloadBytes).flatten = pes.payload := by
  obtain ⟨o, l, hr, hpay, hkl, hol, hbytes, hk, hle⟩ := first_facts pes pl hpl
  obtain ⟨r1, r2, r3⟩ := plan_runPure pes pl f hpl hcc
  have hfe : firstEvs f.st pl.first = openEvs f.st ++ [Ev.beginPkt o l] := by
    unfold firstEvs; rw [hr]
  obtain ⟨_, _, _, _, _, hconts⟩ := hpl
  rw [hkl] at hconts
  obtain ⟨_, c2, _⟩ := conts_run pl.conts _ _ hconts
  simp only [Plan.packets, planEvs, hfe] at r1 r2 r3
  refine ⟨o, l, hr, hol, hk, ?_, r3, ?_, ?_⟩
  · rw [Ts.Lemmas.C08.run_eq f _ r2, r1]
  · rw [hbytes, c2]; exact List.take_append_drop _ _
  · rw [exposed_of_take pes pl.first o l hk hbytes, c2, drop_encode pes l hk]
    exact List.take_append_drop _ _

/-- which callback precedes `begin_packet`: `start_stream` iff nothing was seen before,
`end_packet` iff a packet was open (the previous packet is closed first), nothing otherwise -/
theorem open_events (st : St) :
    (openEvs st = [Ev.start] ↔ st = .begin) ∧ (openEvs st = [Ev.endPkt] ↔ st = .started) ∧
    (openEvs st = [] ↔ st = .ignoreRest) := by
  cases st <;> simp [openEvs]

/-- a continuation packet causes exactly one `continue_packet` with its payload range, a
payload-less packet causes NOTHING -/
theorem cont_events (p : Bytes) :
    (∀ o l, tpPayload p = some (o, l) → contEvs p = [Ev.cont o l]) ∧
    (tpPayload p = none → contEvs p = []) ∧
    (tpPayloadFlag p = false → contEvs p = []) := by
  refine ⟨?_, ?_, ?_⟩
  · intro o l h; unfold contEvs; rw [h]
  · intro h; unfold contEvs; rw [h]
  · intro h
    have : tpPayload p = none := by
      rw [tpPayload_eq]; exact payOf_none_of_hp (by rw [← tpPayloadFlag_eq]; exact h)
    unfold contEvs; rw [this]

/-- no `continuity_error`, no second `begin_packet`, no stray `end_packet` inside a plan -/
theorem no_continuity_error (st : St) (pl : Plan) :
    (∀ evs ∈ planEvs st pl, Ev.ccErr ∉ evs) ∧
    (∀ evs ∈ pl.conts.map contEvs, ∀ e ∈ evs, ∃ o l, e = Ev.cont o l) := by
  have hc : ∀ p : Bytes, ∀ e ∈ contEvs p, ∃ o l, e = Ev.cont o l := by
    intro p e he
    unfold contEvs at he
    cases h : tpPayload p with
    | none => rw [h] at he; simp at he
    | some r =>
      obtain ⟨o, l⟩ := r
      rw [h] at he
      simp at he; exact ⟨o, l, he⟩
  refine ⟨?_, ?_⟩
  · intro evs hm
    simp only [planEvs, List.mem_cons, List.mem_map] at hm
    rcases hm with rfl | ⟨p, _, rfl⟩
    · unfold firstEvs
      rcases tpPayload pl.first with _ | ⟨o, l⟩ <;> cases st <;> simp [openEvs]
    · intro hm
      obtain ⟨o, l, e⟩ := hc p _ hm
      cases e
  · intro evs hm e he
    simp only [List.mem_map] at hm
    obtain ⟨p, _, rfl⟩ := hm
    exact hc p e he

/-! ### what `begin_packet` reports -/

/-- On the first packet of a well-formed plan (at stream offset `base`), the header handed to
`begin_packet` reports the multiplexed stream id and declared length; `kind = 0` (raw payload
from byte 6) for the no-header stream ids and `kind = 1` (parsed optional header) otherwise; the
PTS/DTS that were multiplexed; and as exposed payload the GLOBAL range
`[base + o + headerLen, base + o + l)`, whose bytes are `(encodePes pes).take l |>.drop headerLen`
= the first `l - headerLen` payload bytes. -/
theorem begin_reports_header (pes : PesPkt) (hw : pes.WF) (pl : Plan) (hpl : WellFormedPlan pes pl)
    (base : Nat) :
    ∃ o l, tpPayload pl.first = some (o, l) ∧ o + l = 188 ∧ headerLen pes ≤ l ∧
      App.beginInfo pl.first base o l = .ok
        { sid := pes.sid, len := pes.len
          kind := if pes.noHeader then 0 else 1
          ptsDts := if pes.noHeader then none else some (
            match pes.pts, pes.dts with
            | some p, some d => .ok (.both (.ok p) (.ok d))
            | some p, none => .ok (.ptsOnly (.ok p))
            | none, _ => .error .fieldNotPresent)
          pl := some (base + o + headerLen pes, l - headerLen pes) } ∧
      rangeBytes pl.first (o + headerLen pes, l - headerLen pes)
        = ((encodePes pes).take l).drop (headerLen pes) ∧
      rangeBytes pl.first (o + headerLen pes, l - headerLen pes)
        = pes.payload.take (l - headerLen pes) := by
  obtain ⟨o, l, hr, _, _, hol, hbytes, hk, hle⟩ := first_facts pes pl hpl
  refine ⟨o, l, hr, hol, hk, beginInfo_of_take pes hw pl.first base o l hk hle hbytes, ?_,
    exposed_of_take pes pl.first o l hk hbytes⟩
  rw [exposed_bytes, hbytes]

/-- the same for any packet whose payload range `(o, l)` holds the first `l` bytes of the PES
packet with the header inside (no plan needed) -/
theorem begin_reports_header_range (pes : PesPkt) (hw : pes.WF) (p : Bytes) (base o l : Nat)
    (hk : headerLen pes ≤ l) (hle : l ≤ (encodePes pes).length)
    (hh : rangeBytes p (o, l) = (encodePes pes).take l) :
    App.beginInfo p base o l = .ok (expectedBegin pes base o l) :=
  beginInfo_of_take pes hw p base o l hk hle hh

/-- the application events of the first packet, for either harness setting `touch` (with
`touch = true` the application additionally walks every accessor of the header, which never
panics: `touch_header_total`): the opening event, then `esBegin` with the report above -/
theorem es_events_first (touch : Bool) (pes : PesPkt) (hw : pes.WF) (pl : Plan)
    (hpl : WellFormedPlan pes pl) (base tag : Nat) (c : App.Ctx) (st : St) :
    ∃ o l, tpPayload pl.first = some (o, l) ∧
      App.esEvents touch tag pl.first base c (firstEvs st pl.first) =
        .ok (((esOpen tag st).foldl App.Ctx.emit c).emit
          (.esBegin tag (expectedBegin pes base o l))) := by
  obtain ⟨o, l, hr, _, _, _, hbytes, hk, hle⟩ := first_facts pes pl hpl
  refine ⟨o, l, hr, ?_⟩
  have : firstEvs st pl.first = openEvs st ++ [Ev.beginPkt o l] := by unfold firstEvs; rw [hr]
  rw [this]
  exact esEvents_first touch pes hw pl.first base o l tag c st hk hle hbytes

/-- every accessor / `Debug` walk the harness application performs on a header passed to
`begin_packet` (at least the six fixed bytes; any content) is panic-free -/
theorem touch_header_total (h : Bytes) (h6 : 6 ≤ h.length) : App.touchPesHeader h = .ok () :=
  touchPesHeader_ok h h6

/-- the vocabulary of the two statements above -/
theorem es_vocabulary (tag : Nat) (pes : PesPkt) (base o l : Nat) :
    esOpen tag .begin = [.esStart tag] ∧ esOpen tag .started = [.esEnd tag] ∧ esOpen tag .ignoreRest = [] ∧
    expectedBegin pes base o l =
      { sid := pes.sid, len := pes.len
        kind := if pes.noHeader then 0 else 1
        ptsDts := if pes.noHeader then none else some (expectedPtsDts pes)
        pl := some (base + o + headerLen pes, l - headerLen pes) } :=
  ⟨rfl, rfl, rfl, rfl⟩

/-- the application events of a continuation packet (any `touch`): one `esCont` whose range is
GLOBAL (`base + o`) and lies inside `[base, base + 188)`; nothing for a payload-less packet -/
theorem es_events_cont (touch : Bool) (p : Bytes) (base tag : Nat) (c : App.Ctx) :
    App.esEvents touch tag p base c (contEvs p) =
      .ok (match tpPayload p with
           | some (o, l) => c.emit (.esCont tag (base + o) l)
           | none => c) ∧
    (∀ o l, tpPayload p = some (o, l) → base ≤ base + o ∧ 1 ≤ l ∧ base + o + l = base + 188) := by
  refine ⟨esEvents_cont touch p base tag c, ?_⟩
  intro o l h
  rw [tpPayload_eq] at h
  have := Ts.Lemmas.C08.payOf_sound h
  omega

/-! ### consecutive PES packets -/

/-- Two consecutive well-formed plans on the same PID, counters continuing: the second's first
packet emits `end_packet` (closing the first PES packet) and then its own `begin_packet`; the
bytes delivered for each plan are exactly that PES packet. -/
theorem next_pes_closes_previous (pes1 pes2 : PesPkt) (pl1 pl2 : Plan) (f : F)
    (h1 : WellFormedPlan pes1 pl1) (h2 : WellFormedPlan pes2 pl2)
    (hcc1 : ∀ c ∈ f.cc, tpCc pl1.first = (c + 1) % 16)
    (hcc2 : tpCc pl2.first = (pl1.lastCc + 1) % 16) :
    ∃ o l, tpPayload pl2.first = some (o, l) ∧
      PesFilter.run f (pl1.packets ++ pl2.packets) =
        .ok (⟨some pl2.lastCc, .started⟩,
             planEvs f.st pl1 ++ ([Ev.endPkt, Ev.beginPkt o l] :: pl2.conts.map contEvs)) ∧
      delivered pl1.packets (planEvs f.st pl1) = encodePes pes1 ∧
      delivered pl2.packets ([Ev.endPkt, Ev.beginPkt o l] :: pl2.conts.map contEvs) = encodePes pes2 := by
  obtain ⟨o, l, hr, _⟩ := first_facts pes2 pl2 h2
  obtain ⟨a1, a2, a3⟩ := plan_runPure pes1 pl1 f h1 hcc1
  obtain ⟨b1, b2, b3⟩ := plan_runPure pes2 pl2 ⟨some pl1.lastCc, .started⟩ h2
    (fun c hc => by cases hc; exact hcc2)
  have he : planEvs .started pl2 = [Ev.endPkt, Ev.beginPkt o l] :: pl2.conts.map contEvs := by
    simp only [planEvs, firstEvs, hr, openEvs, List.cons_append, List.nil_append]
  refine ⟨o, l, hr, ?_, a3, ?_⟩
  · rw [Ts.Lemmas.C08.run_eq f _ (by
      intro p hp
      rcases List.mem_append.1 hp with e | e
      · exact a2 p e
      · exact b2 p e), Ts.Lemmas.C08.runPure_append, a1, b1, he]
  · rw [← he]; exact b3

/-- A whole stream of PES packets (`PesStream`: each with a well-formed plan, counters continuing
across packets) from any filter state `f`: the trace is `streamEvs f.st plans`, i.e. per PES packet
`begin_packet, continue_packet*`, the first preceded by `start_stream` (if `f.st = begin`), every
later one by `end_packet`; the bytes delivered per plan (between consecutive `begin_packet`s) are
exactly that PES packet's `encodePes`, hence in total the concatenation of all of them. -/
theorem pes_stream_conservation (s : List (PesPkt × Plan)) (f : F) (hs : PesStream f.cc s) :
    PesFilter.run f (streamPackets s) = .ok (streamFinal f s, streamEvs f.st (s.map (·.2))) ∧
    (∀ x ∈ s, ∀ st, delivered x.2.packets (planEvs st x.2) = encodePes x.1) ∧
    delivered (streamPackets s) (streamEvs f.st (s.map (·.2)))
      = (s.map (fun x => encodePes x.1)).flatten := by
  obtain ⟨r1, r2, r3⟩ := stream_runPure s f hs
  refine ⟨by rw [Ts.Lemmas.C08.run_eq f _ r2, r1], ?_, r3⟩
  -- every member of a stream has a well-formed plan
  have hmem : ∀ (s : List (PesPkt × Plan)) (cc : Option Nat), PesStream cc s →
      ∀ x ∈ s, WellFormedPlan x.1 x.2 := by
    intro s
    induction s with
    | nil => intro _ _ x hx; cases hx
    | cons y rest ih =>
      intro cc h x hx
      obtain ⟨pes, pl⟩ := y
      simp only [PesStream] at h
      rcases List.mem_cons.1 hx with e | e
      · rw [e]; exact h.2.1
      · exact ih _ h.2.2.2 x e
  intro x hx st
  exact (plan_runPure x.1 x.2 ⟨none, st⟩ (hmem s f.cc hs x hx) (fun c hc => by cases hc)).2.2

/-- the shape of the stream trace and of the final state -/
theorem stream_shape (st : St) (f : F) (x : PesPkt × Plan) (rest : List (PesPkt × Plan)) (pls : List Plan) (pl : Plan) :
    streamEvs st [] = [] ∧
    streamEvs st (pl :: pls) = planEvs st pl ++ streamEvs .started pls ∧
    planEvs st pl = firstEvs st pl.first :: pl.conts.map contEvs ∧
    streamFinal f [] = f ∧
    streamFinal f (x :: rest) = streamFinal ⟨some x.2.lastCc, .started⟩ rest :=
  ⟨rfl, rfl, rfl, rfl, rfl⟩

/-! ### nothing is attributed to another PID -/

/-- FRAME, one step of the dispatcher spec, ANY handler semantics: a packet of PID `q ≠ p` is
consumed only by the handler at `q` (`C06.spec_step_consume`) and leaves slot `p` exactly as it was,
unless that handler queues a change naming `p`. -/
theorem frame_step {H C : Type} (sem : Sem H C) (t : Tab H) (c : C) (pk : Pk) (t' : Tab H) (c' : C)
    (p : Nat) (hne : pk.pid ≠ p) (hstep : specStep sem (t, c) pk = .ok (t', c'))
    (hN : ∀ t1 c1 h h' c2 chg, ensure sem t c pk.pid = .ok (t1, c1) → t1.get pk.pid = some h →
      sem.consume h c1 pk = .ok (h', c2, chg) → ∀ ch ∈ chg, ch.pid ≠ p) :
    t'.get p = t.get p :=
  specStep_frame sem t c pk t' c' p hne hstep hN

/-- one step on the PES handler's own PID (application semantics `App.sem`): the packet goes through
`PesFilter.consume`, its callbacks are replayed into the context with this packet's stream offset,
the slot then holds the new filter state; a flagged packet (transport error / scrambled) is not
consumed at all -/
theorem pes_step (t : Tab App.Handler) (c : App.Ctx) (pk : Pk) (tag : Nat) (f : F)
    (hg : t.get pk.pid = some (.pes tag f)) (h188 : pk.bytes.length = 188) :
    (pk.flagged = false →
      ∃ f' evs, PesFilter.consume f pk.bytes = .ok (f', evs) ∧
        specStep App.sem (t, c) pk =
          (App.esEvents c.cfg.touch tag pk.bytes pk.off c evs >>= fun c' =>
            R.ok (t.insert pk.pid (.pes tag f'), c'))) ∧
    (pk.flagged = true → specStep App.sem (t, c) pk = .ok (t, c)) := by
  refine ⟨fun hf => ⟨_, _, Ts.Lemmas.C08.consume_eq f pk.bytes h188, specStep_pes t c pk tag f hg hf h188⟩,
    fun hf => C06.spec_step_flagged_known App.sem t c pk hf ((Tab.contains_eq_true_iff _ _).2 ⟨_, hg⟩)⟩

/-- WHY THE HYPOTHESIS WAS REPLACED.  Earlier versions of `not_attributed_to_other_pid`,
`interleaved_plan` and of the `C02Trace` theorems assumed, for every packet `pk` of another PID,
`QueuesNothingFor App.sem p pk`: "whatever handler consumes `pk`, in whatever context, queues no
change naming `p`".  That is FALSE for every `p` and every `pk`: a `.recorder` handler whose
context carries the script `[(pk.off / 188, [.ins p])]` queues an insertion for `p`.  So those
theorems only applied to runs without any packet of another PID.  They are now stated with
`QuietAlong` (the handlers that ACTUALLY consume the packets in this run) and, at input level, with
`Benign`. -/
theorem queuesNothingFor_unsat (p : Nat) (pk : Pk) : ¬ QueuesNothingFor App.sem p pk := by
  intro h
  have key : App.sem.consume (.recorder 0)
      { cfg := { script := [(pk.off / 188, [.ins p])] } } pk
      = .ok (.recorder 0,
          (({ cfg := { script := [(pk.off / 188, [.ins p])] } : App.Ctx}.emit (.pkt 0 pk.off)
              |> fun c1 => ({ c1 with nextTag := c1.nextTag + 1 } : App.Ctx).emit (.scriptIns p c1.nextTag))),
          [Change.insert p (App.Handler.recorder 0)]) := by
    simp [App.sem, App.consume, List.lookup, App.scriptChanges, App.Ctx.emit]
  exact h _ _ _ _ _ key (Change.insert p (App.Handler.recorder 0)) (by simp) rfl

/-- consequence: the old hypothesis forced the "interleaving" to contain PID-`p` packets only -/
theorem queuesNothingFor_forces_single_pid (p : Nat) (xs : List Pk)
    (hN : ∀ pk ∈ xs, pk.pid ≠ p → QueuesNothingFor App.sem p pk) : ∀ pk ∈ xs, pk.pid = p := by
  intro pk hm
  apply Classical.byContradiction
  intro hne
  exact queuesNothingFor_unsat p pk (hN pk hm hne)

/-- `QuietAlong sem p (t, c) xs`, spelled out.  It is a predicate on the ACTUAL run of the dispatcher
spec from `(t, c)` over `xs`: at every step on an unflagged packet `pk` of a PID other than `p`,
THE handler `h` registered for `pk.pid` at that point (after lookup-or-construct `ensure`), run in
THE context of that point, queues no change naming `p`; and the same holds for the rest of the
run from the state the step leads to.  (Nothing is required of steps on PID `p`, of flagged
packets — they are not consumed —, or after a panic.) -/
theorem quietAlong_iff {H C : Type} (sem : Sem H C) (p : Nat) (tc : Tab H × C) (pk : Pk) (pks : List Pk) :
    QuietAlong sem p tc [] ∧
    (QuietAlong sem p tc (pk :: pks) ↔
      (pk.pid ≠ p → pk.flagged = false →
        ∀ t1 c1 h h' c2 chg, ensure sem tc.1 tc.2 pk.pid = .ok (t1, c1) → t1.get pk.pid = some h →
          sem.consume h c1 pk = .ok (h', c2, chg) → ∀ ch ∈ chg, ch.pid ≠ p)
      ∧ ∀ tc', specStep sem tc pk = .ok tc' → QuietAlong sem p tc' pks) :=
  ⟨trivial, Iff.rfl⟩

/-- Over ANY interleaving `xs` (the application `App.sem` under the dispatcher spec `pushSpec`, which
the real loops refine by `C06.push_refines_spec`): if slot `p` holds a PES handler in filter state
`f`, packets on `p` are 188 bytes, and the run is quiet for `p` (`hQ : QuietAlong`, a hypothesis on
the ACTUAL run: no handler that consumes a packet of another PID in this run queues a change
naming `p`; see `quiet_of_benign_traffic` for input-level sufficient conditions), then after the run
slot `p` holds the same handler (same tag) whose filter state is the one `PesFilter.run` reaches
from `f` over exactly the unflagged packets of PID `p`, in order.  Nothing of another PID reaches
it; nothing of PID `p` is skipped. -/
theorem not_attributed_to_other_pid (p tag : Nat) (xs : List Pk) (t : Tab App.Handler) (c : App.Ctx)
    (f : F) (t' : Tab App.Handler) (c' : App.Ctx)
    (hg : t.get p = some (.pes tag f))
    (h188 : ∀ pk ∈ xs, pk.pid = p → pk.bytes.length = 188)
    (hQ : QuietAlong App.sem p (t, c) xs)
    (hrun : pushSpec App.sem (t, c) xs = .ok (t', c')) :
    ∃ f' evss,
      PesFilter.run f ((xs.filter (fun pk => pk.pid == p && !pk.flagged)).map (·.bytes)) = .ok (f', evss) ∧
      t'.get p = some (.pes tag f') := by
  have hs := pushSpec_pes_slot p tag xs t c f t' c' hg h188 hQ hrun
  refine ⟨_, _, Ts.Lemmas.C08.run_eq f _ ?_, hs⟩
  intro b hb
  simp only [List.mem_map, List.mem_filter] at hb
  obtain ⟨pk, ⟨hm, hp⟩, rfl⟩ := hb
  simp only [Bool.and_eq_true, beq_iff_eq] at hp
  exact h188 pk hm hp.1

/-- the same for the real double loop `pushModel` (`hQ` still speaks of the spec run, which the loop
computes: `C06.push_refines_spec`) -/
theorem not_attributed_to_other_pid_model (p tag : Nat) (xs : List Pk) (t : Tab App.Handler)
    (c : App.Ctx) (f : F) (t' : Tab App.Handler) (c' : App.Ctx)
    (hg : t.get p = some (.pes tag f))
    (h188 : ∀ pk ∈ xs, pk.pid = p → pk.bytes.length = 188)
    (hQ : QuietAlong App.sem p (t, c) xs)
    (hrun : pushModel App.sem (t, c) xs = .ok (t', c')) :
    ∃ f' evss,
      PesFilter.run f ((xs.filter (fun pk => pk.pid == p && !pk.flagged)).map (·.bytes)) = .ok (f', evss) ∧
      t'.get p = some (.pes tag f') := by
  rw [C06.push_refines_spec] at hrun
  exact not_attributed_to_other_pid p tag xs t c f t' c' hg h188 hQ hrun

/-- COROLLARY: a well-formed plan interleaved with traffic of other PIDs that is quiet for `p`
(`hQ : QuietAlong`, as in `not_attributed_to_other_pid`).  If the unflagged packets of PID `p` in
`xs` are exactly the plan's packets, the PES handler ends in the state the plan alone leads to
(`started`, counter of the plan's last packet), having produced (`pes_conservation`) exactly the
plan's callbacks. -/
theorem interleaved_plan (pes : PesPkt) (pl : Plan) (p tag : Nat) (xs : List Pk)
    (t : Tab App.Handler) (c : App.Ctx) (f : F) (t' : Tab App.Handler) (c' : App.Ctx)
    (hpl : WellFormedPlan pes pl) (hcc : ∀ c ∈ f.cc, tpCc pl.first = (c + 1) % 16)
    (hg : t.get p = some (.pes tag f))
    (hsub : (xs.filter (fun pk => pk.pid == p && !pk.flagged)).map (·.bytes) = pl.packets)
    (h188 : ∀ pk ∈ xs, pk.pid = p → pk.bytes.length = 188)
    (hQ : QuietAlong App.sem p (t, c) xs)
    (hrun : pushSpec App.sem (t, c) xs = .ok (t', c')) :
    t'.get p = some (.pes tag ⟨some pl.lastCc, .started⟩) := by
  have hs := pushSpec_pes_slot p tag xs t c f t' c' hg h188 hQ hrun
  rw [hsub, (plan_runPure pes pl f hpl hcc).1] at hs
  exact hs

/-- A PES handler queues no change: if `App.sem.consume` of a handler `.pes tag f` on ANY packet, in
ANY context, succeeds, the change list it returns is empty.  (So a step of the dispatcher on a
packet whose PID holds a PES handler satisfies the step condition of `QuietAlong` for every `p`.
This says nothing about recorder, PAT or PMT handlers.) -/
theorem pes_handler_queues_nothing (tag : Nat) (f : F) (c0 : App.Ctx) (pk : Pk) (h' : App.Handler)
    (c1 : App.Ctx) (chg : List (Change App.Handler))
    (h : App.sem.consume (.pes tag f) c0 pk = .ok (h', c1, chg)) : chg = [] := by
  change App.consume (.pes tag f) c0 pk = _ at h
  simp only [App.consume] at h
  cases h1 : PesFilter.consume f pk.bytes with
  | panic s => rw [h1] at h; cases h
  | ok r =>
    obtain ⟨f', evs⟩ := r
    rw [h1] at h
    simp only [R.ok_bind] at h
    cases h2 : App.esEvents c0.cfg.touch tag pk.bytes pk.off c0 evs with
    | panic s => rw [h2] at h; cases h
    | ok c2 =>
      rw [h2] at h
      simp only [R.ok_bind, R.pure_eq] at h
      injection h with h
      injection h with _ h
      injection h with _ h
      exact h.symm

/-! ### input-level sufficient conditions: other elementary streams, repeated tables, recorders -/

/-- `Benign ver script t pk`, spelled out: relative to the table `t` (the table at the START of a run),
* (ES) the slot of `pk.pid` holds a PES handler; or
* (TABLE) it holds a PAT / PMT handler `h` quiescent at version `ver pk.pid` (C10 `QuiescentH`: its
  section filter remembers that version and is between sections) and `pk` is flagged or a
  repetition packet of that version (C10 `RepPacket`, see `C10.repPacket_iff`); or
* (REC) it holds a recorder, or nothing and `pk.pid ≠ 0` (a recorder is then constructed), and `pk`
  is flagged or `script` has no entry for the packet's index `pk.off / 188`. -/
theorem benign_iff (ver : Nat → Nat) (script : List (Nat × List App.ScriptOp)) (t : Tab App.Handler)
    (pk : Pk) :
    Benign ver script t pk ↔
      (∃ σ g, t.get pk.pid = some (.pes σ g))
      ∨ ((∃ h, t.get pk.pid = some h ∧ Ts.Lemmas.C10.QuiescentH (ver pk.pid) h)
          ∧ (pk.flagged = true ∨ Ts.Lemmas.C10.RepPacket (ver pk.pid) pk.bytes))
      ∨ (((∃ σ, t.get pk.pid = some (.recorder σ)) ∨ (t.get pk.pid = none ∧ pk.pid ≠ 0))
          ∧ (pk.flagged = true ∨ script.lookup (pk.off / 188) = none)) := Iff.rfl

/-- INPUT-LEVEL ⇒ `QuietAlong`.  Slot `p` holds a PES handler; every packet of `xs` on another PID
is `Benign` for the table `t` and the script at the START of the run (`benign_iff`: it belongs to
another elementary stream, or is a repetition of a table in force, or goes to a recorder without
a scripted action).  Then the run from `(t, c)` over `xs` is quiet for `p`; in fact no handler
taking part in it queues any change at all. -/
theorem quiet_of_benign_traffic (ver : Nat → Nat) (p tag : Nat) (xs : List Pk) (t : Tab App.Handler)
    (c : App.Ctx) (f : F) (hg : t.get p = some (.pes tag f))
    (hB : ∀ pk ∈ xs, pk.pid ≠ p → Benign ver c.cfg.script t pk) :
    QuietAlong App.sem p (t, c) xs := by
  refine quietAlong_of_benign ver p xs t c ?_
  intro pk hm
  by_cases hp : pk.pid = p
  · exact benign_of_pes ver _ t pk tag f (by rw [hp]; exact hg)
  · exact hB pk hm hp

/-- `not_attributed_to_other_pid` with hypotheses on the input only: ANY interleaving of the
PID-`p` packets with packets of other elementary streams, repetitions of the tables in force, and
recorder traffic without scripted action (`hB`, see `benign_iff`).  Slot `p` ends with the same
handler in the state `PesFilter.run` reaches over exactly the unflagged PID-`p` packets. -/
theorem not_attributed_among_es_and_repeated_tables (ver : Nat → Nat) (p tag : Nat) (xs : List Pk)
    (t : Tab App.Handler) (c : App.Ctx) (f : F) (t' : Tab App.Handler) (c' : App.Ctx)
    (hg : t.get p = some (.pes tag f))
    (h188 : ∀ pk ∈ xs, pk.pid = p → pk.bytes.length = 188)
    (hB : ∀ pk ∈ xs, pk.pid ≠ p → Benign ver c.cfg.script t pk)
    (hrun : pushSpec App.sem (t, c) xs = .ok (t', c')) :
    ∃ f' evss,
      PesFilter.run f ((xs.filter (fun pk => pk.pid == p && !pk.flagged)).map (·.bytes)) = .ok (f', evss) ∧
      t'.get p = some (.pes tag f') :=
  not_attributed_to_other_pid p tag xs t c f t' c' hg h188
    (quiet_of_benign_traffic ver p tag xs t c f hg hB) hrun

/-! ### non-vacuity -/

/-- a video PES packet: stream id `e0`, unbounded length, data-alignment bit, PTS and DTS, 200
payload bytes; 19 header bytes, 219 bytes in all -/
def exPes : PesPkt :=
  { sid := 0xE0, len := 0, low6 := 0x04, pts := some 0x123456789, dts := some 0x0FEDCBA98,
    payload := (List.range 200).map UInt8.ofNat }

/-- split over 3 transport packets of PID 0x101 (184 bytes without adaptation field — an exact fit —
then 34 bytes behind 150 bytes of adaptation-field stuffing, then 1 byte behind 183 bytes of it),
with a payload-less PCR-only packet (counter repeated) after the first -/
def exPlan : Plan :=
  { first := mkTp true 0x101 5 none ((encodePes exPes).take 184)
    conts := [ mkTp false 0x101 5 (some (pcrAf 183)) [],
               mkTp false 0x101 6 (some (stuffingAf 149)) (((encodePes exPes).drop 184).take 34),
               mkTp false 0x101 7 (some (stuffingAf 182)) ((encodePes exPes).drop 218) ] }

example : exPes.WF := by decide +kernel
example : (encodePes exPes).length = 219 ∧ headerLen exPes = 19 := by decide +kernel
example : WellFormedPlan exPes exPlan := by decide +kernel
example : exPlan.packets.map List.length = [188, 188, 188, 188] := by decide +kernel
-- the expected callbacks of the example, concretely
example : planEvs .begin exPlan =
    [[.start, .beginPkt 4 184], [], [.cont 154 34], [.cont 187 1]] := by decide +kernel
example : exPlan.lastCc = 7 := by decide +kernel
-- … and the model run on it (by evaluation), as `pes_conservation` says
open Ts.Lemmas.C08 in
example : PesFilter.run {} exPlan.packets =
    .ok (⟨some 7, .started⟩, [[.start, .beginPkt 4 184], [], [.cont 154 34], [.cont 187 1]]) := by
  decide +kernel
-- the hypotheses of `pes_conservation` for the three kinds of previous state
example : ∀ c ∈ ({} : F).cc, tpCc exPlan.first = (c + 1) % 16 := by decide
example : ∀ c ∈ (⟨some 4, .started⟩ : F).cc, tpCc exPlan.first = (c + 1) % 16 := by decide +kernel
example : ∀ c ∈ (⟨some 4, .ignoreRest⟩ : F).cc, tpCc exPlan.first = (c + 1) % 16 := by decide +kernel
-- what the header reports on the example
example : App.beginInfo exPlan.first 1880 4 184 =
    .ok ⟨0xE0, 0, 1, some (.ok (.both (.ok 0x123456789) (.ok 0x0FEDCBA98))), some (1880 + 4 + 19, 165)⟩ := by
  obtain ⟨o, l, h1, _, _, h2, _⟩ := begin_reports_header exPes (by decide +kernel) exPlan (by decide +kernel) 1880
  have e : tpPayload exPlan.first = some (4, 184) := by decide +kernel
  rw [e] at h1
  cases h1
  exact h2

/-- the hypothesis "the PES header lies wholly within the transport packet that starts it" is
needed for `begin_reports_header` (not for the byte conservation of the callbacks): the same PES
packet with its 19-byte header cut after 12 bytes. -/
def exSplit : Plan :=
  { first := mkTp true 0x101 5 (some (stuffingAf 171)) ((encodePes exPes).take 12)
    conts := [ mkTp false 0x101 6 (some (stuffingAf 1)) (((encodePes exPes).drop 12).take 182),
               mkTp false 0x101 7 (some (stuffingAf 158)) ((encodePes exPes).drop 194) ] }
example : ¬ WellFormedPlan exPes exSplit := by decide +kernel
example : exSplit.packets.map List.length = [188, 188, 188] ∧ exSplit.k = 12 ∧ headerLen exPes = 19 := by
  decide +kernel
-- the filter still begins the packet and hands over every byte …
open Ts.Lemmas.C08 in
example : PesFilter.run {} exSplit.packets =
    .ok (⟨some 7, .started⟩, [[.start, .beginPkt 176 12], [.cont 6 182], [.cont 163 25]]) := by
  decide +kernel
-- … but the header parser rejects the truncated optional header (`kind = 2`): neither PTS/DTS nor
-- the payload boundary are reported
example : (match App.beginInfo exSplit.first 0 176 12 with
    | .ok bi => bi.sid == 0xE0 && bi.kind == 2 && bi.pl == none
    | .panic _ => false) = true := by decide +kernel

/-- PES payload sizes 0 and 1 (one transport packet each, stuffed by the adaptation field), PTS only -/
def exPes0 : PesPkt := { sid := 0xC0, len := 8, pts := some 90000 }
def exPes1 : PesPkt := { sid := 0xC0, len := 9, pts := some 90000, payload := [0x5a] }
def exPlan0 : Plan := { first := mkTp true 0x102 0 (some (stuffingAf 169)) (encodePes exPes0), conts := [] }
def exPlan1 : Plan := { first := mkTp true 0x102 1 (some (stuffingAf 168)) (encodePes exPes1), conts := [] }
example : exPes0.WF ∧ WellFormedPlan exPes0 exPlan0 ∧ (encodePes exPes0).length = 14 := by decide +kernel
example : exPes1.WF ∧ WellFormedPlan exPes1 exPlan1 ∧ (encodePes exPes1).length = 15 := by decide +kernel

/-- a no-header stream id (padding_stream `be`), exactly 184 bytes: one packet, no adaptation field -/
def exPesPad : PesPkt := { sid := 0xBE, len := 178, payload := List.replicate 178 0xff }
def exPlanPad : Plan := { first := mkTp true 0x102 2 none (encodePes exPesPad), conts := [] }
example : exPesPad.WF ∧ exPesPad.noHeader ∧ headerLen exPesPad = 6 ∧ (encodePes exPesPad).length = 184
    ∧ WellFormedPlan exPesPad exPlanPad := by decide +kernel

/-- an optional header with further flags: ESCR (6 bytes) and PES_CRC (2 bytes) announced, carried in
`optExtra` followed by 3 stuffing bytes; PTS only; payload continues in a second packet that has a
42-byte adaptation field -/
def exPesF : PesPkt :=
  { sid := 0xBD, len := 0, low6 := 0x01, pts := some 0x1FFFFFFFF, flags6 := 0x22,
    optExtra := [0x04, 0x00, 0x04, 0x00, 0x04, 0x01, 0x12, 0x34, 0xff, 0xff, 0xff],
    payload := List.replicate 300 0xab }
def exPlanF : Plan :=
  { first := mkTp true 0x103 15 none ((encodePes exPesF).take 184)
    conts := [ mkTp false 0x103 0 (some (stuffingAf 42)) ((encodePes exPesF).drop 184) ] }
example : exPesF.WF ∧ WellFormedPlan exPesF exPlanF ∧ headerLen exPesF = 25 := by decide +kernel

/-- a stream of the three one-packet plans on PID 0x102 (counters 0, 1, 2) -/
example : PesStream none [(exPes0, exPlan0), (exPes1, exPlan1), (exPesPad, exPlanPad)] := by decide +kernel
example : streamEvs .begin [exPlan0, exPlan1, exPlanPad] =
    [[.start, .beginPkt 174 14], [.endPkt, .beginPkt 173 15], [.endPkt, .beginPkt 4 184]] := by decide +kernel

/-! ### non-vacuity of the interleaving theorems -/

section interleaving
open Ts.Lemmas.Proj

/-- The hypotheses of `not_attributed_among_es_and_repeated_tables` — hence of
`quiet_of_benign_traffic` and, with the `QuietAlong` it yields, of `not_attributed_to_other_pid` —
are satisfiable on an interleaving that DOES contain packets of other PIDs: from the state after
PAT and PMT (`exTab0`, `exCtx0`: PES filters tagged 2 and 3 on PIDs 0x21 and 0x22), the run over
`exPksRep` = `A PAT B PMT B null A A` (A on PID 0x21, B on PID 0x22, a repeated PAT, a repeated PMT,
a null packet) succeeds, is quiet for PID 0x21, and slot 0x21 ends in the state `PesFilter.run`
reaches over the three A packets alone. -/
example : ∃ t' c' f' evss, pushSpec App.sem (exTab0, exCtx0) exPksRep = .ok (t', c') ∧
    QuietAlong App.sem 0x21 (exTab0, exCtx0) exPksRep ∧
    PesFilter.run {} ((exPksRep.filter (fun pk => pk.pid == 0x21 && !pk.flagged)).map (·.bytes))
      = .ok (f', evss) ∧
    t'.get 0x21 = some (.pes 2 f') := by
  have hok : ((pushSpec App.sem (exTab0, exCtx0) exPksRep).isOk
      && exPksRep.all (fun pk => pk.bytes.length == 188)) = true := by decide +kernel
  simp only [Bool.and_eq_true, List.all_eq_true, beq_iff_eq] at hok
  obtain ⟨hok, hlen⟩ := hok
  have hg : exTab0.get 0x21 = some (.pes 2 {}) := by decide +kernel
  have hB : ∀ pk ∈ exPksRep, pk.pid ≠ 0x21 → Benign (fun _ => 0) exCtx0.cfg.script exTab0 pk :=
    fun pk hm _ => exPksRep_benign pk hm
  cases hrun : pushSpec App.sem (exTab0, exCtx0) exPksRep with
  | panic s => rw [hrun] at hok; cases hok
  | ok r =>
    obtain ⟨t', c'⟩ := r
    obtain ⟨f', evss, h1, h2⟩ := not_attributed_among_es_and_repeated_tables (fun _ => 0) 0x21 2
      exPksRep exTab0 exCtx0 {} t' c' hg (fun pk hm _ => hlen pk hm) hB hrun
    exact ⟨t', c', f', evss, rfl, quiet_of_benign_traffic _ 0x21 2 exPksRep exTab0 exCtx0 {} hg hB, h1, h2⟩

/-- … and concretely (evaluated): slot 0x21 ends in `started` with counter 2, slot 0x22 with
counter 8, the PAT handler is still quiescent at version 0 (its dedup layer is now ignoring the
repeated section), the null PID got a recorder -/
example : (match pushSpec App.sem (exTab0, exCtx0) exPksRep with
    | .ok (t, c) => decide (t.get 0x21 = some (.pes 2 ⟨some 2, .started⟩)
        ∧ t.get 0x22 = some (.pes 3 ⟨some 8, .started⟩)
        ∧ t.get 0 = some (.pat { lastVersion := some 0, dedupIgnore := true } [0x20])
        ∧ t.get 0x1fff = some (.recorder 4) ∧ c.nextTag = 5)
    | .panic _ => false) = true := by decide +kernel

end interleaving

/-! ### tie to the value table regenerated from `StreamType::is_pes` in `/repo/src/lib.rs` -/
/-- the stream types the SOURCE declares to be carried as PES are exactly those for which the
application (and its model) installs a PES filter -/
theorem tie_pes_stream_types : ∀ st : Fin 256,
    Ts.App.isPes st.val = Ts.Gen.pesStreamTypes.contains st.val := by decide +kernel

end Ts.Props.C02
