import Ts.Props.C07Q
import Ts.Model.AppQ
/-!
# C07 / C06 / C18 for an application whose `construct` queues changes — the concrete instance

`Ts.AppQ.semQ cs` is the harness application with a construct script `cs` (the `demuxq` / `cutsq`
ops run it against the real code).  With the empty script it IS the application of
`Ts/Model/App.lean` on the older dispatcher model, so every theorem about `App.runApp` speaks about
`AppQ.runAppQ cfg []` as well; with any script, chunking is irrelevant.
-/
namespace Ts.Props.C07QApp
open Ts Ts.Demux Ts.DemuxQ Ts.App Ts.AppQ Ts.Props.C07Q

/-- with no construct script the application queues nothing from `construct` -/
theorem semQ_nil : semQ [] = SemQ.ofSem App.sem := by
  unfold semQ SemQ.ofSem constructQ constructP App.sem
  congr 1

/-- successive pushes: the dispatcher with explicit pending queue, started with nothing pending and
an application whose `construct` queues nothing, is the older model with `[]` appended -/
theorem pushAllQ_ofSem (sem : Sem Handler Ctx) (bufs : List Bytes) : ∀ (tc : Tab Handler × Ctx) (base : Nat),
    pushAllQ (SemQ.ofSem sem) (tc.1, tc.2, []) bufs base =
      (match pushAll sem tc bufs base with
       | .ok (t, c) => .ok (t, c, [])
       | .panic s => .panic s) := by
  induction bufs with
  | nil => intro tc base; rfl
  | cons b bs ih =>
    intro tc base
    unfold pushAllQ pushAll
    rw [ofSem_agrees_push sem tc b base]
    cases h : push sem tc b base with
    | panic s => rfl
    | ok tc' =>
      rcases tc' with ⟨t, c⟩
      simp only [R.ok_bind]
      exact ih (t, c) (base + b.length)

/-- MODEL COMPATIBILITY: `runAppQ` with the empty construct script is `runApp` -/
theorem runAppQ_nil (cfg : Cfg) (pushes : List Bytes) :
    runAppQ cfg [] pushes =
      (match runApp cfg pushes with
       | .ok (t, c) => .ok (t, c, [])
       | .panic s => .panic s) := by
  unfold runAppQ runApp
  rw [semQ_nil]
  exact pushAllQ_ofSem App.sem pushes (App.init cfg) 0

/-- C07 for the application with ANY construct script: any packet-aligned cutting of the input (the
last piece may be unaligned) gives the same final table, context (callback trace included) and
pending changeset as a single push -/
theorem app_chunking_irrelevantQ (cfg : Cfg) (cs : List (Nat × List ScriptOp)) (bufs : List Bytes)
    (h : ∀ c ∈ bufs.dropLast, c.length % 188 = 0) :
    runAppQ cfg cs bufs = runAppQ cfg cs [bufs.flatten] := by
  unfold runAppQ
  exact chunking_irrelevantQ_general (semQ cs) (initQ cfg cs) bufs 0 h

/-- two cuttings of the same bytes agree -/
theorem app_any_two_cuttings_agreeQ (cfg : Cfg) (cs : List (Nat × List ScriptOp)) (cs1 cs2 : List Bytes)
    (h1 : ∀ c ∈ cs1, c.length % 188 = 0) (h2 : ∀ c ∈ cs2, c.length % 188 = 0) (he : cs1.flatten = cs2.flatten) :
    runAppQ cfg cs cs1 = runAppQ cfg cs cs2 := by
  unfold runAppQ
  exact any_two_cuttings_agreeQ (semQ cs) (initQ cfg cs) cs1 cs2 0 h1 h2 he

end Ts.Props.C07QApp
