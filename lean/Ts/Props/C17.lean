import Ts.Model.Tables
import Ts.Spec.Bits
import Ts.Spec.TableSpec
import Ts.Lemmas.C17
import Ts.Gen.Tables
/-!
# C17 — descriptor loops and typed descriptors

For every byte string taken as a descriptor loop, `DescriptorIter<CoreDescriptors>` terminates and
yields, in order, one item per complete descriptor carrying exactly the tag and payload bytes its
`descriptor_length` delimits (or a typed error when the payload is shorter than that type's fixed
part), followed by exactly one error item if and only if trailing bytes remain that do not hold a
complete descriptor.  Registration, ISO-639 language, maximum-bitrate and AVC-video descriptors
expose exactly the bit fields the standard defines, and every tag value 0..=255 maps to the
documented variant.

All model results are `R.ok`: no index, slice, subtraction, `split_at`, `assert_eq!`, `u32`
multiplication or fuel exhaustion is reachable.
-/
namespace Ts.Props.C17
open Ts Ts.Spec Ts.Tables Ts.Spec.TableSpec Ts.Lemmas.C16 Ts.Lemmas.C17

/-! ### the descriptor loop -/

/-- termination and panic freedom -/
theorem desc_iter_total (buf : Bytes) : ∃ items, descIterAll buf = .ok items :=
  ⟨_, descIter_eq _ buf (Nat.lt_succ_self _)⟩

/-- the items are the complete descriptors of the loop, classified, followed by one error item iff
trailing bytes remain; descriptors and trailing bytes re-encode to the buffer -/
theorem desc_iter_tiles (buf : Bytes) :
    ∃ (ds : List (Nat × Bytes)) (trailing : Bytes),
      specDescLoop buf = (ds, trailing) ∧
      descIterAll buf = .ok (ds.map classify ++
        (if trailing = [] then []
         else if trailing.length < 2 then [.err .bufferTooShort] else [.err .notEnoughData])) ∧
      (ds.map encodeDesc).flatten ++ trailing = buf ∧
      (∀ d ∈ ds, d.1 < 256 ∧ d.2.length ≤ 255) ∧
      (trailing.length < 2 ∨ trailing.length < 2 + byteD trailing 1) := by
  obtain ⟨p1, p2, p3⟩ := loop_props _ buf (Nat.lt_succ_self _)
  exact ⟨_, _, rfl, descIter_eq _ buf (Nat.lt_succ_self _), p1, p2, p3⟩

/-- exactly one trailing error iff the leftover is non-empty, and nothing after it -/
theorem desc_iter_count (buf : Bytes) :
    ∃ items, descIterAll buf = .ok items ∧
      items.length = (specDescLoop buf).1.length + (if (specDescLoop buf).2 = [] then 0 else 1) ∧
      (∀ i, i < (specDescLoop buf).1.length →
        items[i]? = ((specDescLoop buf).1[i]?).map classify) := by
  refine ⟨_, descIter_eq _ buf (Nat.lt_succ_self _), ?_, ?_⟩
  · unfold specDescItems trailingItems
    rw [List.length_append, List.length_map]
    split
    · rfl
    · split <;> rfl
  · intro i hi
    unfold specDescItems
    rw [List.getElem?_append_left (by rw [List.length_map]; exact hi), List.getElem?_map]

/-- the item for a complete descriptor: typed error iff the payload is shorter than the fixed part of
its type (registration 4, maximum bitrate 3, AVC video 4, everything else — ISO 639 included — 0) -/
theorem classify_exact (tag : Nat) (payload : Bytes) :
    classify (tag, payload) =
      if payload.length < (if tag = 5 then 4 else if tag = 14 then 3 else if tag = 40 then 4 else 0)
      then .err .notEnoughData else .ok tag payload := by
  unfold classify
  by_cases h5 : tag = 5
  · subst h5; rfl
  by_cases h14 : tag = 14
  · subst h14; rfl
  by_cases h40 : tag = 40
  · subst h40; rfl
  have : typedMinLength tag = 0 := by unfold typedMinLength; split <;> simp_all
  simp [h5, h14, h40, this]

theorem desc_roundtrip (ds : List (Nat × Bytes)) (h : ∀ d ∈ ds, d.1 < 256 ∧ d.2.length ≤ 255) :
    descIterAll ((ds.map encodeDesc).flatten) = .ok (ds.map classify) := by
  have e : descIterAll ((ds.map encodeDesc).flatten) = .ok (specDescItems ((ds.map encodeDesc).flatten)) :=
    descIter_eq _ _ (Nat.lt_succ_self _)
  rw [e]
  unfold specDescItems
  rw [loop_encode ds h]
  simp [trailingItems]

/-! ### typed descriptors -/

/-- the typed constructors never panic (`assert_eq!(tag, Self::TAG)` included) and accept a payload
exactly when it holds the fixed part -/
theorem typed_accept_iff (tag : Nat) (p : Bytes) :
    (∃ r, typedNew tag p = .ok r) ∧
    (typedNew tag p = .ok (.ok ()) ↔ typedMinLength tag ≤ p.length) := by
  rw [typedNew_eq]
  refine ⟨⟨_, rfl⟩, ?_⟩
  by_cases h : p.length < typedMinLength tag
  · simp [h]
  · simp [h]; omega

theorem typed_min_lengths :
    typedMinLength 5 = 4 ∧ typedMinLength 14 = 3 ∧ typedMinLength 40 = 4 ∧ typedMinLength 10 = 0 :=
  ⟨rfl, rfl, rfl, rfl⟩

/-- `RegistrationDescriptor`: format_identifier = first 4 bytes, additional info = the rest -/
theorem reg_fields_exact (p : Bytes) (h : typedNew 5 p = .ok (.ok ())) :
    regFields p = .ok (p.take 4, p.drop 4) :=
  regFields_eq p ((typed_accept_iff 5 p).2.1 h)

/-- `MaximumBitrateDescriptor`: maximum_bitrate = bits 2..24; ×400 never overflows `u32` -/
theorem max_bitrate_exact (p : Bytes) (h : typedNew 14 p = .ok (.ok ())) :
    maxBitrateFields p = .ok (readBits p 2 22, readBits p 2 22 * 400) ∧
    readBits p 2 22 * 400 < 2 ^ 32 := by
  refine ⟨maxBitrate_eq p ((typed_accept_iff 14 p).2.1 h), ?_⟩
  have := readBits_lt p 2 22
  omega

/-- `AvcVideoDescriptor`: profile_idc 8, constraint_set0..5 1 each, AVC_compatible_flags 2,
level_idc 8, AVC_still_present 1, AVC_24_hour_picture_flag 1, frame_packing_SEI_not_present 1 -/
theorem avc_fields_exact (p : Bytes) (h : typedNew 40 p = .ok (.ok ())) :
    avcFields p = .ok
      { profileIdc := readBits p 0 8,
        cs0 := readBits p 8 1 == 1, cs1 := readBits p 9 1 == 1, cs2 := readBits p 10 1 == 1,
        cs3 := readBits p 11 1 == 1, cs4 := readBits p 12 1 == 1, cs5 := readBits p 13 1 == 1,
        compat := readBits p 14 2, levelIdc := readBits p 16 8,
        still := readBits p 24 1 == 1, h24 := readBits p 25 1 == 1, fpSei := readBits p 26 1 == 1 } :=
  avcFields_eq p ((typed_accept_iff 40 p).2.1 h)

/-- `Iso639LanguageDescriptor::languages()`: total for every payload; one item per complete 4-byte
group (3-byte code, audio_type byte) followed by exactly one `tooShort n` iff `n = len % 4 ≠ 0` -/
theorem languages_exact (p : Bytes) :
    ∃ items, languagesAll p = .ok items ∧
      items.length = p.length / 4 + (if p.length % 4 = 0 then 0 else 1) ∧
      (∀ i, i < p.length / 4 →
        items[i]? = some (.lang ((p.drop (4 * i)).take 3) (readBits p (8 * (4 * i + 3)) 8))) ∧
      items[p.length / 4]? = (if p.length % 4 = 0 then none else some (.tooShort (p.length % 4))) := by
  refine ⟨specLanguages p, languages_eq _ p (Nat.lt_succ_self _), specLanguages_length p, ?_, lang_last p⟩
  intro i hi
  rw [lang_get p i hi, readBits_byte]

/-! ### tag → variant -/

/-- all 256 tag values map to the documented variant.  (`decide +kernel` evaluates both `String`
results in the kernel; no enumeration detour was needed.) -/
theorem tag_variant_table_fin : ∀ tag : Fin 256, variantName tag.val = specVariant tag.val := by
  decide +kernel

theorem tag_variant_table (tag : Nat) (h : tag < 256) : variantName tag = specVariant tag :=
  tag_variant_table_fin ⟨tag, h⟩

/-- the table typed in from the documentation is itself well formed: its ranges are increasing and
tile 0..=255 exactly, so `specVariant` never falls through to its default -/
theorem variant_ranges_tile : rangesTile 0 variantRanges = true := by decide

/-! ### non-vacuity -/

/-- a registration descriptor ("CUEI") followed by an ISO 639 descriptor ("eng", undefined) -/
example : descIterAll [0x05, 0x04, 0x43, 0x55, 0x45, 0x49, 0x0a, 0x04, 0x65, 0x6e, 0x67, 0x00]
    = .ok [.ok 5 [0x43, 0x55, 0x45, 0x49], .ok 10 [0x65, 0x6e, 0x67, 0x00]] := by rfl
example : specDescLoop [0x05, 0x04, 0x43, 0x55, 0x45, 0x49, 0x0a, 0x04, 0x65, 0x6e, 0x67, 0x00]
    = ([(5, [0x43, 0x55, 0x45, 0x49]), (10, [0x65, 0x6e, 0x67, 0x00])], []) :=
  loop_encode [(5, [0x43, 0x55, 0x45, 0x49]), (10, [0x65, 0x6e, 0x67, 0x00])] (by decide)
/-- trailing partial descriptor (declares 9 bytes, 1 present) -/
example : descIterAll [0x02, 0x01, 0xff, 0x0e, 0x09, 0x01] = .ok [.ok 2 [0xff], .err .notEnoughData] := by rfl
/-- a single stray byte -/
example : descIterAll [0x02, 0x00, 0x07] = .ok [.ok 2 [], .err .bufferTooShort] := by rfl
/-- a typed error does not stop the loop -/
example : descIterAll [0x05, 0x01, 0xaa, 0x02, 0x00] = .ok [.err .notEnoughData, .ok 2 []] := by rfl
example : classify (5, [0xaa]) = .err .notEnoughData ∧ classify (10, []) = .ok 10 [] := by decide
/-- the crate's own test vectors -/
example : maxBitrateFields [0xc0, 0x01, 0x84] = .ok (388, 155200) := by rfl
example : languagesAll [0x65, 0x6e, 0x67, 0x00, 0x66] = .ok [.lang [0x65, 0x6e, 0x67] 0, .tooShort 1] := by rfl
example : typedNew 14 [0xc0, 0x01, 0x84] = .ok (.ok ()) := by rfl
example : avcFields [0x64, 0x40, 0x28, 0xbf]
    = .ok ⟨100, false, true, false, false, false, false, 0, 40, true, false, true⟩ := by rfl
example : specVariant 5 = "Registration" ∧ specVariant 60 = "Reserved" ∧ specVariant 200 = "UserPrivate" := by
  decide +kernel

/-! ### tie to the `descriptor_enum!{ CoreDescriptors … }` rows regenerated from the source -/
/-- variant / payload type the SOURCE's macro invocation selects for a tag -/
def genRow (tag : Nat) : Option (Nat × Nat × String × String) :=
  Ts.Gen.descVariants.find? (fun r => r.1 ≤ tag && tag ≤ r.2.1)
def genVariant (tag : Nat) : String := match genRow tag with | some r => r.2.2.1 | none => "?"
def genPayloadType (tag : Nat) : String := match genRow tag with | some r => r.2.2.2 | none => "?"

/-- every tag 0..=255 is mapped by the source's table to the variant the model (and, by
`tag_variant_table`, the documented table) gives -/
theorem tie_variant_rows : ∀ tag : Fin 256, Ts.Tables.variantName tag.val = genVariant tag.val := by
  decide +kernel
/-- the typed payload constructors are attached to exactly the tags the model dispatches on
(5 registration, 10 ISO 639 language, 14 maximum bitrate, 40 AVC video; everything else is the
catch-all `UnknownDescriptor`) -/
theorem tie_payload_types : ∀ tag : Fin 256, genPayloadType tag.val =
    (if tag.val = 5 then "RegistrationDescriptor" else if tag.val = 10 then "Iso639LanguageDescriptor"
     else if tag.val = 14 then "MaximumBitrateDescriptor" else if tag.val = 40 then "AvcVideoDescriptor"
     else "UnknownDescriptor") := by decide +kernel

end Ts.Props.C17
