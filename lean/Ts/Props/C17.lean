import Ts.Model.Tables
import Ts.Spec.Bits
import Ts.Spec.TableSpec
import Ts.Lemmas.C17
import Ts.Gen.Tables
import Ts.Lemmas.RevC
/-!
# C17 — descriptor loops and typed descriptors

For every byte string taken as a descriptor loop, `DescriptorIter<CoreDescriptors>` terminates and
yields, in order, one item per complete descriptor carrying exactly the tag and payload bytes its
`descriptor_length` delimits (or a typed error when the payload is shorter than that type's fixed
part), followed by exactly one error item if and only if trailing bytes remain that do not hold a
complete descriptor.  Registration, ISO-639 language, maximum-bitrate and AVC-video descriptors
expose exactly the bit fields the standard defines, and every tag value 0..=255 maps to the
documented variant.

All model results are `R.ok`: no index, slice, subtraction, `split_at`, `assert_eq!` or `u32`
multiplication panic is reachable.

Fuel (review C): `descIter` / `languages` return `.ok []` when their fuel argument runs out, so
`desc_iter_total` by itself is NOT evidence of termination.  Termination is carried by the equality
with the fuel-free `specDescLoop` (`desc_iter_tiles`) and by `desc_iter_fuel_irrelevant` /
`languages_fuel_irrelevant`: every fuel above the buffer length gives the same result.

Scope and readings (review C):
* Typed descriptors are verified as raw bytes / bit fields: `LangItem.lang` carries the 3 raw code
  bytes and the raw `audio_type` byte, `regFields` the 4 raw identifier bytes.  The two value
  conversions of the ISO 639 descriptor are modelled SEPARATELY, as functions of those raw values:
  `AudioType::from` is `Tables.audioTypeOf` (`Ts.Props.Ties.audio_type_exact`,
  `audio_type_keeps_value`) and `Language::code` (latin-1 decoding) is `Tables.langCodePoints`
  (`Ts.Props.Ties.lang_code_points`); the theorems of this file do not compose them with
  `languages_exact`.  NOT modelled (nothing is claimed): `FormatIdentifier::from` / `is_format`
  (external crate `smptera-format-identifiers-rust`; the model keeps the 4 raw bytes).
* `DescErr` carries no payload (`DescriptorError::NotEnoughData { tag, actual, expected }` etc. are
  collapsed), so a typed payload that is too short and a trailing incomplete descriptor both appear
  as `.err .notEnoughData`; `desc_iter_tiles` tells them apart by position.
* `tag_variant_table` compares the code with the crate's own documentation; `tag_table_iso13818_1*`
  compare it with ISO/IEC 13818-1 Table 2-45, typed in independently.
* Ties to regenerated constants (`Ts/Props/Ties.lean`): the fixed-part lengths 4, 3, 4 of the typed
  constructors are `tie_typed_descriptor_min_len` (`Gen.registrationMinLen`, `maxBitrateMinLen`,
  `avcVideoMinLen` in `typedNew`; this file's `typedMinLength` is the SPEC's copy, related to
  `typedNew` by `typed_accept_iff`), the language item size 4 is `tie_language_item_size`.
  NOT tied (no regenerated constant exists): the descriptor header size 2 (`tag`, `length`:
  `coreFromBytes`, `descIter`), the typed tags 5 / 10 / 14 / 40 as `Self::TAG` (the tag → payload-type
  table IS regenerated: `tie_payload_types`), the factors `50 * 8` of
  `maximum_bits_per_second` (`tie_max_bitrate_unit` compares the 50 with `EsRate`'s constant only),
  the byte offsets and masks of `avcFields` / `maxBitrateFields`.
-/
namespace Ts.Props.C17
open Ts Ts.Spec Ts.Tables Ts.Spec.TableSpec Ts.Lemmas.C16 Ts.Lemmas.C17 Ts.Lemmas.RevC

/-! ### the descriptor loop -/

/-- panic freedom: `descIterAll` returns `R.ok`.  WEAK as a termination statement: the model's
iterator is fuel-bounded and returns `.ok []` on exhaustion, so this holds for any fuel-bounded
function.  That the supplied fuel (`length + 1`) is never exhausted is `desc_iter_fuel_irrelevant`;
that the items are exactly the descriptors of the buffer is `desc_iter_tiles`. -/
theorem desc_iter_total (buf : Bytes) : ∃ items, descIterAll buf = .ok items :=
  ⟨_, descIter_eq _ buf (Nat.lt_succ_self _)⟩

/-- **Fuel is never exhausted.**  For every fuel greater than the buffer length, `descIter` gives
the result of `descIterAll` (which supplies `length + 1`), and one more unit of fuel changes
nothing.  Hypothesis: `buf.length < fuel` (each step consumes at least 2 bytes, so this is generous). -/
theorem desc_iter_fuel_irrelevant (buf : Bytes) (fuel : Nat) (h : buf.length < fuel) :
    descIter fuel buf = descIterAll buf ∧ descIter fuel buf = descIter (fuel + 1) buf := by
  unfold descIterAll
  rw [descIter_eq fuel buf h, descIter_eq _ buf (Nat.lt_succ_self _), descIter_eq (fuel + 1) buf (by omega)]
  exact ⟨rfl, rfl⟩

/-- the same for `LanguageIterator` -/
theorem languages_fuel_irrelevant (p : Bytes) (fuel : Nat) (h : p.length < fuel) :
    languages fuel p = languagesAll p ∧ languages fuel p = languages (fuel + 1) p := by
  unfold languagesAll
  rw [languages_eq fuel p h, languages_eq _ p (Nat.lt_succ_self _), languages_eq (fuel + 1) p (by omega)]
  exact ⟨rfl, rfl⟩

/-- the hypothesis is needed, and exhaustion is silent: too little fuel yields a proper prefix,
still as `R.ok` -/
example : descIter 1 [0x02, 0x00, 0x03, 0x00] = .ok [.ok 2 []]
    ∧ descIterAll [0x02, 0x00, 0x03, 0x00] = .ok [.ok 2 [], .ok 3 []] := ⟨rfl, rfl⟩
example : descIter 1000 [0x02, 0x00, 0x03, 0x00] = descIterAll [0x02, 0x00, 0x03, 0x00] :=
  (desc_iter_fuel_irrelevant _ 1000 (by decide)).1

/-- the items are the complete descriptors of the loop, classified, followed by one error item iff
trailing bytes remain; descriptors and trailing bytes re-encode to the buffer -/
theorem desc_iter_tiles (buf : Bytes) :
    ∃ (ds : List (Nat × Bytes)) (trailing : Bytes),
      specDescLoop buf = (ds, trailing) ∧
      descIterAll buf = .ok (ds.map classify ++
        (if trailing = [] then []
         else if trailing.length < 2 then [.err .bufferTooShort] else [.err .notEnoughData])) ∧
      (ds.map encodeDesc).flatten ++ trailing = buf ∧
      (∀ d ∈ ds, d.1 < 256 ∧ d.2.length ≤ 255) ∧
      (trailing.length < 2 ∨ trailing.length < 2 + byteD trailing 1) := by
  obtain ⟨p1, p2, p3⟩ := loop_props _ buf (Nat.lt_succ_self _)
  exact ⟨_, _, rfl, descIter_eq _ buf (Nat.lt_succ_self _), p1, p2, p3⟩

/-- exactly one trailing error iff the leftover is non-empty, and nothing after it -/
theorem desc_iter_count (buf : Bytes) :
    ∃ items, descIterAll buf = .ok items ∧
      items.length = (specDescLoop buf).1.length + (if (specDescLoop buf).2 = [] then 0 else 1) ∧
      (∀ i, i < (specDescLoop buf).1.length →
        items[i]? = ((specDescLoop buf).1[i]?).map classify) := by
  refine ⟨_, descIter_eq _ buf (Nat.lt_succ_self _), ?_, ?_⟩
  · unfold specDescItems trailingItems
    rw [List.length_append, List.length_map]
    split
    · rfl
    · split <;> rfl
  · intro i hi
    unfold specDescItems
    rw [List.getElem?_append_left (by rw [List.length_map]; exact hi), List.getElem?_map]

/-- the item for a complete descriptor: typed error iff the payload is shorter than the fixed part of
its type (registration 4, maximum bitrate 3, AVC video 4, everything else — ISO 639 included — 0) -/
theorem classify_exact (tag : Nat) (payload : Bytes) :
    classify (tag, payload) =
      if payload.length < (if tag = 5 then 4 else if tag = 14 then 3 else if tag = 40 then 4 else 0)
      then .err .notEnoughData else .ok tag payload := by
  unfold classify
  by_cases h5 : tag = 5
  · subst h5; rfl
  by_cases h14 : tag = 14
  · subst h14; rfl
  by_cases h40 : tag = 40
  · subst h40; rfl
  have : typedMinLength tag = 0 := by unfold typedMinLength; split <;> simp_all
  simp [h5, h14, h40, this]

theorem desc_roundtrip (ds : List (Nat × Bytes)) (h : ∀ d ∈ ds, d.1 < 256 ∧ d.2.length ≤ 255) :
    descIterAll ((ds.map encodeDesc).flatten) = .ok (ds.map classify) := by
  have e : descIterAll ((ds.map encodeDesc).flatten) = .ok (specDescItems ((ds.map encodeDesc).flatten)) :=
    descIter_eq _ _ (Nat.lt_succ_self _)
  rw [e]
  unfold specDescItems
  rw [loop_encode ds h]
  simp [trailingItems]

/-! ### typed descriptors -/

/-- the typed constructors never panic (`assert_eq!(tag, Self::TAG)` included) and accept a payload
exactly when it holds the fixed part -/
theorem typed_accept_iff (tag : Nat) (p : Bytes) :
    (∃ r, typedNew tag p = .ok r) ∧
    (typedNew tag p = .ok (.ok ()) ↔ typedMinLength tag ≤ p.length) := by
  rw [typedNew_eq]
  refine ⟨⟨_, rfl⟩, ?_⟩
  by_cases h : p.length < typedMinLength tag
  · simp [h]
  · simp [h]; omega

theorem typed_min_lengths :
    typedMinLength 5 = 4 ∧ typedMinLength 14 = 3 ∧ typedMinLength 40 = 4 ∧ typedMinLength 10 = 0 :=
  ⟨rfl, rfl, rfl, rfl⟩

/-- a direct `CoreDescriptors::from_bytes` call on ANY buffer: no panic; `BufferTooShort` below two
bytes, `TagTooLongForBuffer` when `descriptor_length` overruns the buffer, otherwise the classified
descriptor (bytes after the declared length are ignored) -/
theorem core_from_bytes_exact (buf : Bytes) :
    coreFromBytes buf = .ok (
      if buf.length < 2 then .err .bufferTooShort
      else if buf.length < 2 + byteD buf 1 then .err .tagTooLongForBuffer
      else classify (byteD buf 0, (buf.drop 2).take (byteD buf 1))) :=
  coreFromBytes_eq buf

example : coreFromBytes [0x05] = .ok (.err .bufferTooShort)
    ∧ coreFromBytes [0x05, 0x04, 0x43] = .ok (.err .tagTooLongForBuffer)
    ∧ coreFromBytes [0x05, 0x01, 0x43, 0xff] = .ok (.err .notEnoughData)
    ∧ coreFromBytes [0x02, 0x01, 0x43, 0xff] = .ok (.ok 2 [0x43]) := ⟨rfl, rfl, rfl, rfl⟩

/-- `RegistrationDescriptor`: format_identifier = first 4 bytes, additional info = the rest -/
theorem reg_fields_exact (p : Bytes) (h : typedNew 5 p = .ok (.ok ())) :
    regFields p = .ok (p.take 4, p.drop 4) :=
  regFields_eq p ((typed_accept_iff 5 p).2.1 h)

/-- instance of `reg_fields_exact`: the hypothesis holds for the 6-byte payload "CUEI" + 2 bytes of
additional identification info, and the two sides evaluate to the split after 4 bytes; a 4-byte
payload has empty additional info; a 3-byte payload does not satisfy the hypothesis -/
example : typedNew 5 [0x43, 0x55, 0x45, 0x49, 0xAA, 0xBB] = .ok (.ok ()) ∧
    regFields [0x43, 0x55, 0x45, 0x49, 0xAA, 0xBB] = .ok ([0x43, 0x55, 0x45, 0x49], [0xAA, 0xBB]) ∧
    regFields [0x43, 0x55, 0x45, 0x49] = .ok ([0x43, 0x55, 0x45, 0x49], []) ∧
    typedNew 5 [0x43, 0x55, 0x45] = .ok (.error .notEnoughData) := ⟨rfl, rfl, rfl, rfl⟩
example : regFields [0x43, 0x55, 0x45, 0x49, 0xAA, 0xBB]
    = .ok (([0x43, 0x55, 0x45, 0x49, 0xAA, 0xBB] : Bytes).take 4, ([0x43, 0x55, 0x45, 0x49, 0xAA, 0xBB] : Bytes).drop 4) :=
  reg_fields_exact _ rfl

/-- `MaximumBitrateDescriptor`: maximum_bitrate = bits 2..24; ×400 never overflows `u32` -/
theorem max_bitrate_exact (p : Bytes) (h : typedNew 14 p = .ok (.ok ())) :
    maxBitrateFields p = .ok (readBits p 2 22, readBits p 2 22 * 400) ∧
    readBits p 2 22 * 400 < 2 ^ 32 := by
  refine ⟨maxBitrate_eq p ((typed_accept_iff 14 p).2.1 h), ?_⟩
  have := readBits_lt p 2 22
  omega

/-- `AvcVideoDescriptor`: profile_idc 8, constraint_set0..5 1 each, AVC_compatible_flags 2,
level_idc 8, AVC_still_present 1, AVC_24_hour_picture_flag 1, frame_packing_SEI_not_present 1 -/
theorem avc_fields_exact (p : Bytes) (h : typedNew 40 p = .ok (.ok ())) :
    avcFields p = .ok
      { profileIdc := readBits p 0 8,
        cs0 := readBits p 8 1 == 1, cs1 := readBits p 9 1 == 1, cs2 := readBits p 10 1 == 1,
        cs3 := readBits p 11 1 == 1, cs4 := readBits p 12 1 == 1, cs5 := readBits p 13 1 == 1,
        compat := readBits p 14 2, levelIdc := readBits p 16 8,
        still := readBits p 24 1 == 1, h24 := readBits p 25 1 == 1, fpSei := readBits p 26 1 == 1 } :=
  avcFields_eq p ((typed_accept_iff 40 p).2.1 h)

/-- `Iso639LanguageDescriptor::languages()`: total for every payload; one item per complete 4-byte
group (3-byte code, audio_type byte) followed by exactly one `tooShort n` iff `n = len % 4 ≠ 0` -/
theorem languages_exact (p : Bytes) :
    ∃ items, languagesAll p = .ok items ∧
      items.length = p.length / 4 + (if p.length % 4 = 0 then 0 else 1) ∧
      (∀ i, i < p.length / 4 →
        items[i]? = some (.lang ((p.drop (4 * i)).take 3) (readBits p (8 * (4 * i + 3)) 8))) ∧
      items[p.length / 4]? = (if p.length % 4 = 0 then none else some (.tooShort (p.length % 4))) := by
  refine ⟨specLanguages p, languages_eq _ p (Nat.lt_succ_self _), specLanguages_length p, ?_, lang_last p⟩
  intro i hi
  rw [lang_get p i hi, readBits_byte]

/-! ### tag → variant -/

/-- all 256 tag values map to the documented variant.  (`decide +kernel` evaluates both `String`
results in the kernel; no enumeration detour was needed.) -/
theorem tag_variant_table_fin : ∀ tag : Fin 256, variantName tag.val = specVariant tag.val := by
  decide +kernel

theorem tag_variant_table (tag : Nat) (h : tag < 256) : variantName tag = specVariant tag :=
  tag_variant_table_fin ⟨tag, h⟩

/-- the table typed in from the documentation is itself well formed: its ranges are increasing and
tile 0..=255 exactly, so `specVariant` never falls through to its default -/
theorem variant_ranges_tile : rangesTile 0 variantRanges = true := by decide

/-! ### tag → variant against ISO/IEC 13818-1 Table 2-45 (independent of the crate's docs and of `Ts/Gen`)

Each row below is `(descriptor_tag, name in Table 2-45, variant of CoreDescriptors)`; the table is
typed in from the standard (2015 edition numbering), NOT from the crate.  The correspondence
"standard's name ↔ variant identifier" is by reading the two names (note the crate's misspelt
`MontentLabeling` for content_labeling_descriptor, tag 36). -/

/-- tags 2..18 and 27..44: the model maps each tag to the variant named after the descriptor the
standard assigns to it -/
theorem tag_table_iso13818_1 :
    ∀ r ∈ ([ (2,  "video_stream_descriptor",                 "VideoStream"),
             (3,  "audio_stream_descriptor",                 "AudioStream"),
             (4,  "hierarchy_descriptor",                    "Hierarchy"),
             (5,  "registration_descriptor",                 "Registration"),
             (6,  "data_stream_alignment_descriptor",        "DataStreamAlignment"),
             (7,  "target_background_grid_descriptor",       "TargetBackgroundGrid"),
             (8,  "video_window_descriptor",                 "VideoWindow"),
             (9,  "CA_descriptor",                           "CA"),
             (10, "ISO_639_language_descriptor",             "ISO639Language"),
             (11, "system_clock_descriptor",                 "SystemClock"),
             (12, "multiplex_buffer_utilization_descriptor", "MultiplexBufferUtilization"),
             (13, "copyright_descriptor",                    "Copyright"),
             (14, "maximum_bitrate_descriptor",              "MaximumBitrate"),
             (15, "private_data_indicator_descriptor",       "PrivateDataIndicator"),
             (16, "smoothing_buffer_descriptor",             "SmoothingBuffer"),
             (17, "STD_descriptor",                          "STD"),
             (18, "IBP_descriptor",                          "IBP"),
             (27, "MPEG-4_video_descriptor",                 "MPEG4Video"),
             (28, "MPEG-4_audio_descriptor",                 "MPEG4Audio"),
             (29, "IOD_descriptor",                          "IOD"),
             (30, "SL_descriptor",                           "SL"),
             (31, "FMC_descriptor",                          "FMC"),
             (32, "external_ES_ID_descriptor",               "ExternalESID"),
             (33, "MuxCode_descriptor",                      "MuxCode"),
             (34, "FmxBufferSize_descriptor",                "FmxBufferSize"),
             (35, "multiplexBuffer_descriptor",              "MultiplexBuffer"),
             (36, "content_labeling_descriptor",             "MontentLabeling"),
             (37, "metadata_pointer_descriptor",             "MetadataPointer"),
             (38, "metadata_descriptor",                     "Metadata"),
             (39, "metadata_STD_descriptor",                 "MetadataStd"),
             (40, "AVC video descriptor",                    "AvcVideo"),
             (41, "IPMP_descriptor",                         "IPMP"),
             (42, "AVC timing and HRD descriptor",           "AvcTimingAndHrd"),
             (43, "MPEG-2_AAC_audio_descriptor",             "Mpeg2AacAudio"),
             (44, "FlexMuxTiming_descriptor",                "FlexMuxTiming") ] : List (Nat × String × String)),
      variantName r.1 = r.2.2 := by decide +kernel


/-- tags 45..56 and 63 (rows added by the amendments folded into the 2013/2015 editions) -/
theorem tag_table_iso13818_1_tail :
    ∀ r ∈ ([ (45, "MPEG-4_text_descriptor",                     "Mpeg4Text"),
             (46, "MPEG-4_audio_extension_descriptor",          "Mpeg4AudioExtension"),
             (47, "Auxiliary_video_stream_descriptor",          "AuxiliaryVideoStream"),
             (48, "SVC extension descriptor",                   "SvcExtension"),
             (49, "MVC extension descriptor",                   "MvcExtension"),
             (50, "J2K video descriptor",                       "J2kVideo"),
             (51, "MVC operation point descriptor",             "MvcOperationPoint"),
             (52, "MPEG2_stereoscopic_video_format_descriptor", "Mpeg2StereoscopicVideoFormat"),
             (53, "Stereoscopic_program_info_descriptor",       "StereoscopicProgramInfo"),
             (54, "Stereoscopic_video_info_descriptor",         "StereoscopicVideoInfo"),
             (55, "Transport_profile_descriptor",               "TransportProfile"),
             (56, "HEVC video descriptor",                      "HevcVideo"),
             (63, "Extension_descriptor",                       "Extension") ] : List (Nat × String × String)),
      variantName r.1 = r.2.2 := by decide +kernel

theorem tag_table_ranges_fin : ∀ t : Fin 256,
    (19 ≤ t.val ∧ t.val ≤ 26 → variantName t.val = "IsoIec13818dash6") ∧
    (64 ≤ t.val → variantName t.val = "UserPrivate") ∧
    ((t.val = 0 ∨ t.val = 1 ∨ (57 ≤ t.val ∧ t.val ≤ 62)) → variantName t.val = "Reserved") := by
  decide +kernel

/-- the ranges of Table 2-45: 19..26 "Defined in ISO/IEC 13818-6", 64..255 "User Private",
0 and 57..62 "Reserved".  DEVIATIONS from later editions, kept visible: tag 1 is "forbidden" (not
"reserved") since the 2012 edition, and tags 57 (VVC video) and 58 (EVC video) are assigned in the
2021 and later editions; the crate (and hence the model) files all three under `Reserved`. -/
theorem tag_table_iso13818_1_ranges (t : Nat) (h : t < 256) :
    (19 ≤ t ∧ t ≤ 26 → variantName t = "IsoIec13818dash6") ∧
    (64 ≤ t → variantName t = "UserPrivate") ∧
    ((t = 0 ∨ t = 1 ∨ (57 ≤ t ∧ t ≤ 62)) → variantName t = "Reserved") :=
  tag_table_ranges_fin ⟨t, h⟩

/-- the three tables together cover every tag 0..=255 (so no tag is left unchecked) -/
theorem tag_table_covers : ∀ t : Fin 256,
    (2 ≤ t.val ∧ t.val ≤ 18) ∨ (27 ≤ t.val ∧ t.val ≤ 44) ∨ (45 ≤ t.val ∧ t.val ≤ 56) ∨ t.val = 63
      ∨ (19 ≤ t.val ∧ t.val ≤ 26) ∨ 64 ≤ t.val ∨ t.val = 0 ∨ t.val = 1 ∨ (57 ≤ t.val ∧ t.val ≤ 62) := by
  decide +kernel

/-! ### non-vacuity -/

/-- a registration descriptor ("CUEI") followed by an ISO 639 descriptor ("eng", undefined) -/
example : descIterAll [0x05, 0x04, 0x43, 0x55, 0x45, 0x49, 0x0a, 0x04, 0x65, 0x6e, 0x67, 0x00]
    = .ok [.ok 5 [0x43, 0x55, 0x45, 0x49], .ok 10 [0x65, 0x6e, 0x67, 0x00]] := by rfl
example : specDescLoop [0x05, 0x04, 0x43, 0x55, 0x45, 0x49, 0x0a, 0x04, 0x65, 0x6e, 0x67, 0x00]
    = ([(5, [0x43, 0x55, 0x45, 0x49]), (10, [0x65, 0x6e, 0x67, 0x00])], []) :=
  loop_encode [(5, [0x43, 0x55, 0x45, 0x49]), (10, [0x65, 0x6e, 0x67, 0x00])] (by decide)
/-- trailing partial descriptor (declares 9 bytes, 1 present) -/
example : descIterAll [0x02, 0x01, 0xff, 0x0e, 0x09, 0x01] = .ok [.ok 2 [0xff], .err .notEnoughData] := by rfl
/-- a single stray byte -/
example : descIterAll [0x02, 0x00, 0x07] = .ok [.ok 2 [], .err .bufferTooShort] := by rfl
/-- a typed error does not stop the loop -/
example : descIterAll [0x05, 0x01, 0xaa, 0x02, 0x00] = .ok [.err .notEnoughData, .ok 2 []] := by rfl
example : classify (5, [0xaa]) = .err .notEnoughData ∧ classify (10, []) = .ok 10 [] := by decide
/-- the crate's own test vectors -/
example : maxBitrateFields [0xc0, 0x01, 0x84] = .ok (388, 155200) := by rfl
example : languagesAll [0x65, 0x6e, 0x67, 0x00, 0x66] = .ok [.lang [0x65, 0x6e, 0x67] 0, .tooShort 1] := by rfl
example : typedNew 14 [0xc0, 0x01, 0x84] = .ok (.ok ()) := by rfl
example : avcFields [0x64, 0x40, 0x28, 0xbf]
    = .ok ⟨100, false, true, false, false, false, false, 0, 40, true, false, true⟩ := by rfl
example : specVariant 5 = "Registration" ∧ specVariant 60 = "Reserved" ∧ specVariant 200 = "UserPrivate" := by
  decide +kernel

/-! ### tie to the `descriptor_enum!{ CoreDescriptors … }` rows regenerated from the source -/
/-- variant / payload type the SOURCE's macro invocation selects for a tag -/
def genRow (tag : Nat) : Option (Nat × Nat × String × String) :=
  Ts.Gen.descVariants.find? (fun r => r.1 ≤ tag && tag ≤ r.2.1)
def genVariant (tag : Nat) : String := match genRow tag with | some r => r.2.2.1 | none => "?"
def genPayloadType (tag : Nat) : String := match genRow tag with | some r => r.2.2.2 | none => "?"

/-- every tag 0..=255 is mapped by the source's table to the variant the model (and, by
`tag_variant_table`, the documented table) gives -/
theorem tie_variant_rows : ∀ tag : Fin 256, Ts.Tables.variantName tag.val = genVariant tag.val := by
  decide +kernel
/-- the typed payload constructors are attached to exactly the tags the model dispatches on
(5 registration, 10 ISO 639 language, 14 maximum bitrate, 40 AVC video; everything else is the
catch-all `UnknownDescriptor`) -/
theorem tie_payload_types : ∀ tag : Fin 256, genPayloadType tag.val =
    (if tag.val = 5 then "RegistrationDescriptor" else if tag.val = 10 then "Iso639LanguageDescriptor"
     else if tag.val = 14 then "MaximumBitrateDescriptor" else if tag.val = 40 then "AvcVideoDescriptor"
     else "UnknownDescriptor") := by decide +kernel

end Ts.Props.C17
