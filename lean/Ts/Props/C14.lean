import Ts.Model.Pes
import Ts.Spec.Bits
import Ts.Spec.PesSpec
import Ts.Lemmas.C14c
import Ts.Gen.Consts
import Ts.Gen.Tables
import Ts.Lemmas.RevC
import Ts.Spec.TimeSpec
/-!
# C14 — PES packet header fields are bit-exact, and rejection is exact

For every byte string offered as the start of a PES packet: `PesHeader::from_bytes`,
`stream_id`, `pes_packet_length`, `contents`, `PesParsedContents::from_bytes` and every accessor
of `PesParsedContents` (the model `Ts/Model/Pes.lean`, transcribed from `pes.rs:280-853`: byte
masks, shifts, and an offset chain recomputed from the flag byte by each accessor) equal the
outcome of the *sequential cursor parser* of `Ts/Spec/PesSpec.lean`, which reads the syntax table
of ISO/IEC 13818-1 2.4.3.7 top to bottom with `uimsbf` bit fields (`readBits`).
All results are `R.ok`: none of the evaluated operations panics (indexing, slicing, the `usize`
subtractions inside the `warn!` arguments, `pts_dts_end`'s and `from_id`'s panic arms,
`ClockRef::from_parts`' and `EsRate::new`'s assertions).

The spec's outcomes are mapped to the code's result types by the translations of
`Ts/Lemmas/C14.lean` (`resOf`: present ↦ `Ok`, absent ↦ `FieldNotPresent`, truncated ↦
`NotEnoughData`, forbidden ↦ `PtsDtsFlagsInvalid`; `tsRes`, `ptsDtsConv`, `escrConv`, `trickConv`,
`copyInfoRes` are constructor-for-constructor).

Two deviations are kept visible:
* **F5 (known finding)** `copyright()` has the inverted polarity: see `copyright_inverted`.
* `pes_extension()` and `payload()` are *not* total on receivers that `from_bytes` would reject
  (`pesExtension_panics_unaccepted`, `payloadOffset_panics_unaccepted`); such receivers cannot be
  constructed through the public API, so these are not reachable panics.

Readings (review C; section "readings" below, specification text in `Ts/Spec/PesSpec.lean`):
in four places the crate checks or exposes less than Table 2-21 defines, and the specification
`parse` follows the crate.  None is treated as a defect; each is pinned by a theorem:
* **trick mode, reserved control codes 5..7**: `DsmTrickMode::Reserved` carries the 3-bit control
  code; the five data bits are not observable (`trick_reserved_exposes_control`,
  `trick_byte_data_unobservable`, `trickAt_eq_exposed`).  For codes 0..4 all eight bits are exposed.
* **PTS/DTS 4-bit prefix** (`'0010'`, `'0011'`, `'0001'`): not examined by `pts_dts()`
  (`pts_dts_ignores_prefix`, `pts_dts_prefix_not_checked`), whereas `Timestamp::from_pts_bytes`
  insists on `'0010'` and so rejects the `'0011'` PTS of a pair (`from_pts_bytes_rejects_pair_prefix`).
* **ESCR and ES_rate marker bits**: not examined (`escr_ignores_markers`, `es_rate_ignores_markers`,
  `*_markers_not_checked`), unlike the PTS/DTS and additional_copy_info markers.
* **Boolean-encoded enums** (`data_alignment_indicator`, `copyright`, `original_or_copy`):
  `polarity_pinned` states which bit value the model's `true` stands for; that `true` is mapped to
  the right Rust variant is established by the differential harness only.
* **PES extension** (section "READING: the PES extension…" below): the crate's `PesExtension` is documented
  "TODO: not yet implemented" and is an opaque slice: `pes_extension()` returns ALL bytes between
  the end of the flag-implied fixed-size fields and the end of the header.  Neither the extension's
  own flag byte nor its fields are looked at, so "flag-implied field sizes" in this property means
  the six fields up to previous_PES_packet_CRC only: a header with PES_extension_flag = 1 and zero
  bytes of extension is accepted (`ext_flag_zero_bytes_accepted`), and the header's stuffing bytes
  are part of the extension range (`extension_absorbs_stuffing`).
Also: error payloads (`NotEnoughData { requested, available }`) are not modelled, and
`pes_extension()` is only described as a byte range.
Ties to regenerated constants: the named sizes below (`tie_*`); the field sizes 1
(`DSM_TRICK_MODE_SIZE`), 1 (`ADDITIONAL_COPY_INFO_SIZE`), 2 (`PREVIOUS_PES_PACKET_CRC_SIZE`), the
`ES_rate` bound and the `×50` factor are tied in `Ts/Props/Ties.lean` (`tie_trick_mode_size`,
`tie_copy_info_size`, `tie_prev_crc_size`, `tie_es_rate_assert`, `tie_bytes_per_second`).
-/
namespace Ts.Props.C14
open Ts Ts.Spec Ts.Spec.PesSpec Ts.Lemmas.C14 Ts.Lemmas.RevC Ts.Spec.TimeSpec

/-! ### ties to the constants regenerated from `/repo/src/pes.rs`

Each of the first five names a constant of the MODEL (`Pes.HDR_FIXED`, …) that the model's
definitions use by name.  The equations of the model with the regenerated constants in place are
`Ts.Props.Ties.tie_pes_header_size`, `tie_pes_offset_chain`, `tie_es_rate_assert`. -/
theorem tie_fixed_header : Ts.Gen.pesFixedHeaderSize = 6 ∧ Pes.HDR_FIXED = 6 := by decide
theorem tie_parsed_fixed : Ts.Gen.pesParsedFixed = 3 ∧ Pes.FIXED = 3 := by decide
theorem tie_timestamp_size : Ts.Gen.pesTimestampSize = 5 ∧ Pes.TIMESTAMP_SIZE = 5 := by decide
theorem tie_escr_size : Ts.Gen.pesEscrSize = 6 ∧ Pes.ESCR_SIZE = 6 := by decide
theorem tie_es_rate_size : Ts.Gen.pesEsRateSize = 3 ∧ Pes.ES_RATE_SIZE = 3 := by decide
/-- PIN ONLY (second review): the first conjunct fixes the regenerated number, the second is a
closed arithmetic fact; neither mentions `Pes.esRate`.  The tie that does is
`Ts.Props.Ties.tie_es_rate_assert` (the model's `assertR (v < 1 <<< 22)` restated with
`Gen.esRateBound`); `esRate_lt` below bounds the SPEC's value by the same constant. -/
theorem tie_es_rate_bound : Ts.Gen.esRateBound = 2 ^ 22 ∧ (1 <<< 22 : Nat) = 2 ^ 22 := by decide

/-! ### the 6-byte packet header -/

/-- `PesHeader::from_bytes` never panics and accepts exactly the byte strings of at least six
bytes that start with `packet_start_code_prefix = 0x000001` -/
theorem header_accept_iff (buf : Bytes) :
    Pes.headerFromBytes buf =
      .ok (if 6 ≤ buf.length ∧ readBits buf 0 24 = 1 then some buf else none) :=
  headerFromBytes_eq buf

theorem stream_id_exact (buf : Bytes) (h : 6 ≤ buf.length) :
    Pes.streamId buf = .ok (readBits buf 24 8) := by
  unfold Pes.streamId
  rw [byteAt_ok buf 3 (by omega), rb_byte buf 24 3 rfl]

theorem packet_length_exact (buf : Bytes) (h : 6 ≤ buf.length) :
    Pes.pesPacketLength buf = .ok (readBits buf 32 16) := by
  unfold Pes.pesPacketLength
  rw [byteAt_ok buf 4 (by omega), byteAt_ok buf 5 (by omega)]
  exact congrArg R.ok (crc_val buf 4)

/-- `StreamId::is_parsed` is the complement of the standard's list of stream ids without optional
header -/
theorem isParsed_table : ∀ sid, sid < 256 → Pes.isParsed sid = !(noHeaderIds.contains sid) := by
  decide +kernel

/-- `PesHeader::contents` (for any header `from_bytes` accepts; only the length is used): raw
payload exactly for the stream ids that carry no optional header, otherwise the result of
`PesParsedContents::from_bytes` on the bytes after the packet header -/
theorem contents_kind (buf : Bytes) (h : 6 ≤ buf.length) :
    Pes.contents buf =
      .ok (if readBits buf 24 8 ∈ noHeaderIds then .payload (buf.drop 6)
           else .parsed (if parsedAccepted (buf.drop 6) then some (buf.drop 6) else none)) :=
  contents_eq buf h

/-! ### acceptance of the optional header -/

/-- the acceptance predicate of the spec, spelled out -/
theorem parsedAccepted_def (c : Bytes) : parsedAccepted c ↔
    (3 ≤ c.length ∧ readBits c 0 2 = 2 ∧ 3 + readBits c 16 8 ≤ c.length
      ∧ fixedFieldsEnd (flagsOf c) ≤ 3 + readBits c 16 8) := Iff.rfl

/-- `PesParsedContents::from_bytes` never panics (in particular the subtractions evaluated for the
`warn!` messages never underflow and `pts_dts_end` never reaches its panic arm) and rejects
exactly when the three fixed bytes are missing, the `'10'` marker is wrong, the declared header
length exceeds the bytes available, or the flag-implied fixed-size fields exceed the declared
header length -/
theorem parsed_accept_iff (c : Bytes) :
    Pes.parsedFromBytes c = .ok (if parsedAccepted c then some c else none) :=
  parsedFromBytes_eq c

/-- the cursor the sequential parser reaches after the fixed-size fields is the flag-only
`fixedFieldsEnd` used by the acceptance predicate -/
theorem fixedEnd_consistent (c : Bytes) : (parse c).fixedEnd = fixedFieldsEnd (flagsOf c) := by
  rw [parse_fixedEnd, fixedFieldsEnd_eq]

/-! ### field exactness -/

/-- Every accessor equals the outcome of the sequential parser, on EVERY receiver of at least
three bytes (accepted by `from_bytes` or not), except `copyright` (finding F5, below).
`pes_extension` and `payload` need the side conditions shown, which acceptance implies
(`pes_fields_exact_accepted`). -/
theorem pes_fields_exact_partial (c : Bytes) (h3 : 3 ≤ c.length) :
    Pes.pesPriority c = .ok (parse c).priority ∧
    Pes.dataAlignment c = .ok (parse c).dataAlignment ∧
    Pes.original c = .ok (parse c).original ∧
    Pes.ptsDts c = .ok (resOf ptsDtsConv (parse c).ptsDts) ∧
    Pes.escr c = .ok (resOf escrConv (parse c).escr) ∧
    Pes.esRate c = .ok (resOf id (parse c).esRate) ∧
    Pes.dsmTrickMode c = .ok (resOf trickConv (parse c).trick) ∧
    Pes.additionalCopyInfo c = .ok (copyInfoRes (parse c).copyInfo) ∧
    Pes.previousCrc c = .ok (resOf id (parse c).prevCrc) ∧
    (fixedFieldsEnd (flagsOf c) ≤ 3 + hdl c ∨ c.length < 3 + hdl c →
      Pes.pesExtension c = .ok (resOf id (parse c).extension)) ∧
    (3 + hdl c ≤ c.length → Pes.payloadOffset c = .ok (parse c).payloadOffset) :=
  ⟨pesPriority_exact c h3, dataAlignment_exact c h3, original_exact c h3, ptsDts_exact c h3,
   escr_exact c h3, esRate_exact c h3, dsmTrickMode_exact c h3, additionalCopyInfo_exact c h3,
   previousCrc_exact c h3, pesExtension_exact c h3, payloadOffset_exact c h3⟩

/-- for receivers `from_bytes` accepts, the extension is never truncated and starts where the
fixed-size fields end, and the payload starts at `3 + PES_header_data_length` -/
theorem pes_fields_exact_accepted (c : Bytes) (h : Pes.parsedFromBytes c = .ok (some c)) :
    parsedAccepted c ∧
    Pes.pesExtension c = .ok (resOf id (parse c).extension) ∧
    (parse c).extension = (if (flagsOf c).ext then
        .present (fixedFieldsEnd (flagsOf c), 3 + hdl c - fixedFieldsEnd (flagsOf c)) else .absent) ∧
    Pes.payloadOffset c = .ok (3 + hdl c) ∧ 3 + hdl c ≤ c.length := by
  have hacc : parsedAccepted c := by
    rw [parsed_accept_iff] at h
    by_cases hp : parsedAccepted c
    · exact hp
    · rw [if_neg hp] at h; cases h
  obtain ⟨h3, _, hh, hf⟩ := hacc
  have hacc : parsedAccepted c := ⟨h3, by assumption, hh, hf⟩
  refine ⟨hacc, pesExtension_exact c h3 (Or.inl hf), ?_, ?_, hh⟩
  · rw [parse_extension, ← fixedFieldsEnd_eq]
    cases (flagsOf c).ext
    · rfl
    · simp [hf, hh]
  · rw [payloadOffset_exact c h3 hh, parse_payloadOffset]

/-- `pes_extension()` is not total on receivers `from_bytes` rejects: here the flag-implied end
(8) lies after the declared header end (3), and `&buf[8..3]` panics.  (`from_bytes` returns
`None` for these bytes, so the receiver cannot be constructed through the public API.) -/
theorem pesExtension_panics_unaccepted :
    Pes.pesExtension [0x80, 0x81, 0x00] = .panic "slice index starts after end" ∧
    Pes.parsedFromBytes [0x80, 0x81, 0x00] = .ok none := ⟨rfl, rfl⟩

/-- `payload()` is not total on receivers `from_bytes` rejects -/
theorem payloadOffset_panics_unaccepted :
    Pes.payloadOffset [0x80, 0x00, 0x05] = .panic "range start index out of range" ∧
    Pes.parsedFromBytes [0x80, 0x00, 0x05] = .ok none := ⟨rfl, rfl⟩

/-! ### READING: the PES extension is an opaque "rest of the header" slice -/

/-- **PES_extension_flag = 1 with zero extension bytes is accepted.**  ISO/IEC 13818-1 Table 2-21:
a set PES_extension_flag is followed by at least one byte (PES_private_data_flag,
pack_header_field_flag, program_packet_sequence_counter_flag, P-STD_buffer_flag, 3 reserved bits,
PES_extension_flag_2).  The crate does not count it among the flag-implied sizes: the reviewer's
probe `00 00 01 e0 00 00 | 80 01 00 | 01` (PES_extension_flag = 1, PES_header_data_length = 0, one
payload byte) is accepted by `PesHeader::contents`, and `pes_extension()` answers `Ok` with the
EMPTY range `(3, 0)`.  Model, code and the specification `parse` agree; the crate's `PesExtension`
is "TODO: not yet implemented" (`pes.rs:476`) and exposes nothing, so this is recorded as a
reading, not as a defect. -/
theorem ext_flag_zero_bytes_accepted :
    parsedAccepted [0x80, 0x01, 0x00] ∧
    (flagsOf [0x80, 0x01, 0x00]).ext = true ∧
    (parse [0x80, 0x01, 0x00]).extension = .present (3, 0) ∧
    Pes.parsedFromBytes [0x80, 0x01, 0x00] = .ok (some [0x80, 0x01, 0x00]) ∧
    Pes.pesExtension [0x80, 0x01, 0x00] = .ok (.ok (3, 0)) ∧
    -- the whole probe, through `PesHeader::from_bytes` / `contents`
    Pes.headerFromBytes [0x00, 0x00, 0x01, 0xE0, 0x00, 0x00, 0x80, 0x01, 0x00, 0x01]
      = .ok (some [0x00, 0x00, 0x01, 0xE0, 0x00, 0x00, 0x80, 0x01, 0x00, 0x01]) ∧
    (∃ c, Pes.contents [0x00, 0x00, 0x01, 0xE0, 0x00, 0x00, 0x80, 0x01, 0x00, 0x01] = .ok (.parsed (some c))
      ∧ c = [0x80, 0x01, 0x00, 0x01] ∧ Pes.pesExtension c = .ok (.ok (3, 0))
      ∧ Pes.payloadOffset c = .ok 3) :=
  ⟨by decide +kernel, by decide +kernel, by decide +kernel, rfl, rfl, rfl, ⟨_, rfl, rfl, rfl, rfl⟩⟩

/-- **The extension range runs to the end of the header, stuffing included.**  For every receiver
`from_bytes` accepts (hypothesis `h`) whose PES_extension_flag is set (hypothesis `hext`):
`pes_extension()` is `Ok` with the range that starts where the six flag-implied fixed-size fields
end (`fixedFieldsEnd`, the code's `pes_crc_end`) and has length `3 + PES_header_data_length −
fixedFieldsEnd`, so it ends exactly where the payload starts.  Consequently, however the bytes
between `fixedFieldsEnd` and the end of the header are split into `n` bytes of real extension
fields and `k` stuffing bytes (`hsplit`), the range has length `n + k`: the `k` stuffing bytes
(0xFF, Table 2-21 `stuffing_byte`) are reported as part of the extension. -/
theorem extension_absorbs_stuffing (c : Bytes) (h : Pes.parsedFromBytes c = .ok (some c))
    (hext : (flagsOf c).ext = true) :
    Pes.pesExtension c =
      .ok (.ok (fixedFieldsEnd (flagsOf c), 3 + hdl c - fixedFieldsEnd (flagsOf c))) ∧
    fixedFieldsEnd (flagsOf c) + (3 + hdl c - fixedFieldsEnd (flagsOf c)) = 3 + hdl c ∧
    Pes.payloadOffset c = .ok (3 + hdl c) ∧
    (∀ n k, 3 + hdl c = fixedFieldsEnd (flagsOf c) + n + k →
      Pes.pesExtension c = .ok (.ok (fixedFieldsEnd (flagsOf c), n + k))) := by
  obtain ⟨hacc, hx, hp, hpo, _⟩ := pes_fields_exact_accepted c h
  have hf : fixedFieldsEnd (flagsOf c) ≤ 3 + hdl c := hacc.2.2.2
  rw [hext, if_pos rfl] at hp
  have e : Pes.pesExtension c =
      .ok (.ok (fixedFieldsEnd (flagsOf c), 3 + hdl c - fixedFieldsEnd (flagsOf c))) := by
    rw [hx, hp]; rfl
  refine ⟨e, by omega, hpo, ?_⟩
  intro n k hs
  rw [e]
  have : 3 + hdl c - fixedFieldsEnd (flagsOf c) = n + k := by omega
  rw [this]

/-- instance of `extension_absorbs_stuffing`: PES_extension_flag set, PES_header_data_length 3, a
one-byte extension (`0x0E`: the five flags of the extension's first byte clear, reserved bits set) followed by TWO
stuffing bytes `0xFF 0xFF` and one payload byte.  The hypotheses hold, `n = 1`, `k = 2`, and the
reported extension range `(3, 3)` covers the extension byte and both stuffing bytes. -/
theorem extension_absorbs_stuffing_instance :
    Pes.parsedFromBytes [0x80, 0x01, 0x03, 0x0E, 0xFF, 0xFF, 0x42]
      = .ok (some [0x80, 0x01, 0x03, 0x0E, 0xFF, 0xFF, 0x42]) ∧
    (flagsOf [0x80, 0x01, 0x03, 0x0E, 0xFF, 0xFF, 0x42]).ext = true ∧
    3 + hdl [0x80, 0x01, 0x03, 0x0E, 0xFF, 0xFF, 0x42]
      = fixedFieldsEnd (flagsOf [0x80, 0x01, 0x03, 0x0E, 0xFF, 0xFF, 0x42]) + 1 + 2 ∧
    Pes.pesExtension [0x80, 0x01, 0x03, 0x0E, 0xFF, 0xFF, 0x42] = .ok (.ok (3, 3)) ∧
    (([0x80, 0x01, 0x03, 0x0E, 0xFF, 0xFF, 0x42] : Bytes).drop 3).take 3 = [0x0E, 0xFF, 0xFF] :=
  ⟨rfl, by decide +kernel, by decide +kernel, rfl, rfl⟩

/-- the same with flagged fields in front: PTS (5 bytes) + previous_PES_packet_CRC (2 bytes) +
extension flag, PES_header_data_length 10 = 5 + 2 + 1 extension byte + 2 stuffing bytes; the
extension range `(10, 3)` starts at `pes_crc_end` = 10 and includes the stuffing -/
example : Pes.parsedFromBytes [0x80, 0x83, 0x0A, 0x21, 0x00, 0x01, 0x00, 0x01, 0x12, 0x34, 0x0E, 0xFF, 0xFF, 0x42]
      = .ok (some [0x80, 0x83, 0x0A, 0x21, 0x00, 0x01, 0x00, 0x01, 0x12, 0x34, 0x0E, 0xFF, 0xFF, 0x42]) ∧
    fixedFieldsEnd (flagsOf [0x80, 0x83, 0x0A, 0x21, 0x00, 0x01, 0x00, 0x01, 0x12, 0x34, 0x0E, 0xFF, 0xFF, 0x42]) = 10 ∧
    Pes.pesExtension [0x80, 0x83, 0x0A, 0x21, 0x00, 0x01, 0x00, 0x01, 0x12, 0x34, 0x0E, 0xFF, 0xFF, 0x42]
      = .ok (.ok (10, 3)) := ⟨rfl, by decide +kernel, rfl⟩

/-- panic freedom, extracted: on every receiver of at least three bytes `escr` never trips
`ClockRef::from_parts`' assertions, `es_rate` never trips `assert!(es_rate < 1 << 22)`, and
`dsm_trick_mode` never reaches `from_id`'s panic arm -/
theorem accessors_never_panic (c : Bytes) (h3 : 3 ≤ c.length) :
    (Pes.ptsDts c).isOk ∧ (Pes.escr c).isOk ∧ (Pes.esRate c).isOk ∧ (Pes.dsmTrickMode c).isOk ∧
    (Pes.additionalCopyInfo c).isOk ∧ (Pes.previousCrc c).isOk := by
  obtain ⟨_, _, _, a, b, d, e, f, g, _⟩ := pes_fields_exact_partial c h3
  rw [a, b, d, e, f, g]; exact ⟨rfl, rfl, rfl, rfl, rfl, rfl⟩

/-- every ES_rate the model yields satisfies the `EsRate` invariant -/
theorem esRate_lt (c : Bytes) (p : Nat) : esRateAt c p < Ts.Gen.esRateBound := by
  have := readBits_lt c (8 * p + 1) 22
  unfold esRateAt Ts.Gen.esRateBound; omega

/-! ### KNOWN FINDING F5: `copyright()` polarity -/

/-- The model's (= the code's) `copyright()` answers `Copyright::Undefined` (`true`) exactly when
the copyright bit (bit 6 of the first byte) is 1. -/
theorem copyright_pinned (c : Bytes) (h3 : 3 ≤ c.length) :
    Pes.copyrightUndefined c = .ok (readBits c 6 1 == 1) :=
  Ts.Lemmas.C14.copyright_pinned c h3

/-- ISO/IEC 13818-1 2.4.3.7: *copyright = 1: the material is protected by copyright; 0: not
defined whether it is protected*.  The spec's `(parse c).copyright` is `true` for "protected", so
the standard-conforming answer for "undefined" would be its NEGATION; the code returns it
un-negated: "Undefined" is reported exactly when the standard says "protected". -/
theorem copyright_inverted (c : Bytes) (h3 : 3 ≤ c.length) :
    Pes.copyrightUndefined c = .ok (parse c).copyright := by
  rw [(parse_bits c).2.2.1]; exact Ts.Lemmas.C14.copyright_pinned c h3

/-- the standard-conforming statement is false for the model (witness: all-clear flags) -/
theorem copyright_exact_false :
    ¬ ∀ c : Bytes, 3 ≤ c.length → Pes.copyrightUndefined c = .ok (!(parse c).copyright) := by
  intro h
  have h1 := h [0x80, 0x00, 0x00] (by decide)
  rw [copyright_inverted _ (by decide)] at h1
  have h2 : (parse [0x80, 0x00, 0x00]).copyright = false := by decide +kernel
  rw [h2] at h1
  cases h1

/-! ### readings

#### trick mode -/

/-- the trick-mode value `parse` reports is the standard's full reading of the byte (`trickStdAt`,
which keeps the five data bits of a reserved control code) with exactly those five bits forgotten
(`TrickStd.exposed`) -/
theorem trickAt_eq_exposed (c : Bytes) (p : Nat) : trickAt c p = (trickStdAt c p).exposed :=
  trickAt_exposed c p

/-- `exposed` loses nothing except on reserved control codes: two full readings with the same
exposed value are equal unless the first is a reserved code -/
theorem exposed_injective_off_reserved (a b : TrickStd) (h : a.exposed = b.exposed)
    (ha : ∀ k d, a ≠ .reserved k d) : a = b := by
  cases a <;> cases b <;> simp only [TrickStd.exposed] at h <;> try cases h
  all_goals first | rfl | exact absurd rfl (ha _ _)

/-- … and on a reserved code it forgets the data bits, whatever they are -/
theorem exposed_forgets_reserved_data (k d d' : Nat) :
    (TrickStd.reserved k d).exposed = (TrickStd.reserved k d').exposed := rfl

/-- the code's decode of a trick-mode byte `b` whose control code `b / 32` (= `b >> 5`) is 5, 6 or
7: `Reserved { reserved: control }`, no panic -/
theorem trick_byte_reserved (b : Nat) (hb : b < 256) (h : 5 ≤ b / 32) :
    Pes.trickOfByte b = .ok (.reserved (b / 32)) :=
  ok_of_okVal (tbl_trick_reserved ⟨b, hb⟩ h)

/-- hence two trick-mode bytes with the same reserved control code decode to the same value: the
five data bits are unobservable -/
theorem trick_byte_data_unobservable (b b' : Nat) (hb : b < 256) (hb' : b' < 256) (h : 5 ≤ b / 32)
    (he : b / 32 = b' / 32) : Pes.trickOfByte b = Pes.trickOfByte b' := by
  rw [trick_byte_reserved b hb h, trick_byte_reserved b' hb' (by omega), he]

/-- **Reserved trick-mode control codes expose the control code.**  For every receiver `c` of at
least three bytes whose DSM_trick_mode_flag is set, whose trick-mode byte (at `trickPos`, computed
from the flags) lies inside the header (`≤ limit c`), and whose `trick_mode_control` (the first 3
bits of that byte) is ≥ 5: `dsm_trick_mode()` returns `Reserved` carrying exactly that 3-bit
control code.  Bits 3..8 of the byte do not appear in the result. -/
theorem trick_reserved_exposes_control (c : Bytes) (h3 : 3 ≤ c.length)
    (hflag : (flagsOf c).trick = true)
    (hfit : trickPos (flagsOf c) + 1 ≤ limit c)
    (hres : 5 ≤ readBits c (8 * trickPos (flagsOf c)) 3) :
    Pes.dsmTrickMode c = .ok (.ok (.reserved (readBits c (8 * trickPos (flagsOf c)) 3))) := by
  rw [dsmTrickMode_exact c h3, parse_trick, ← trickPos_eq]
  unfold fieldAt
  simp only [hflag, Bool.not_true, Bool.false_eq_true, if_false, hfit, if_true, resOf]
  rw [trickAt_reserved c _ hres]; rfl

/-- accessor-level corollary: two receivers satisfying the hypotheses above with the same reserved
control code give the same `dsm_trick_mode()` result, whatever their five data bits -/
theorem trick_reserved_data_unobservable (c c' : Bytes) (h3 : 3 ≤ c.length) (h3' : 3 ≤ c'.length)
    (hflag : (flagsOf c).trick = true) (hflag' : (flagsOf c').trick = true)
    (hfit : trickPos (flagsOf c) + 1 ≤ limit c) (hfit' : trickPos (flagsOf c') + 1 ≤ limit c')
    (hres : 5 ≤ readBits c (8 * trickPos (flagsOf c)) 3)
    (heq : readBits c (8 * trickPos (flagsOf c)) 3 = readBits c' (8 * trickPos (flagsOf c')) 3) :
    Pes.dsmTrickMode c = Pes.dsmTrickMode c' := by
  rw [trick_reserved_exposes_control c h3 hflag hfit hres,
    trick_reserved_exposes_control c' h3' hflag' hfit' (by omega), heq]

/-- for every control code the accessor returns the exposed part of the standard's full reading
(for codes 0..4 that is all eight bits) -/
theorem trick_exposes_std_reading (c : Bytes) (h3 : 3 ≤ c.length)
    (hflag : (flagsOf c).trick = true)
    (hfit : trickPos (flagsOf c) + 1 ≤ limit c) :
    Pes.dsmTrickMode c = .ok (.ok (trickConv (trickStdAt c (trickPos (flagsOf c))).exposed)) := by
  rw [dsmTrickMode_exact c h3, parse_trick, ← trickPos_eq]
  unfold fieldAt
  simp only [hflag, Bool.not_true, Bool.false_eq_true, if_false, hfit, if_true, resOf]
  rw [trickAt_exposed]


/-! #### PTS / DTS prefix -/

/-- **`pts_dts()` ignores the 4-bit prefix.**  A header with PTS_DTS_flags `'10'` followed by the
5-byte time stamp structure carrying ANY prefix `pfx < 16` and any 33-bit value `v` (`encodeTs`
of `Ts/Spec/TimeSpec.lean`, markers set) yields `PtsOnly(Ok(v))`. -/
theorem pts_dts_ignores_prefix (pfx v : Nat) (hp : pfx < 16) (hv : v < 2 ^ 33) :
    Pes.ptsDts ([0x80, 0x80, 0x05] ++ encodeTs pfx v) = .ok (.ok (.ptsOnly (.ok v))) := by
  have hb := Ts.Lemmas.C15.fromBytes_encode pfx v [] hp hv
  rw [List.append_nil] at hb
  have e : Pes.ptsDts ([0x80, 0x80, 0x05] ++ encodeTs pfx v)
      = (do let t ← Time.fromBytes (encodeTs pfx v); pure (.ok (.ptsOnly t))) := rfl
  rw [e, hb]; rfl

/-- the same for PTS_DTS_flags `'11'`: any two prefixes -/
theorem pts_dts_ignores_prefix_both (p1 p2 v1 v2 : Nat) (hp1 : p1 < 16) (hp2 : p2 < 16)
    (hv1 : v1 < 2 ^ 33) (hv2 : v2 < 2 ^ 33) :
    Pes.ptsDts ([0x80, 0xC0, 0x0A] ++ encodeTs p1 v1 ++ encodeTs p2 v2)
      = .ok (.ok (.both (.ok v1) (.ok v2))) := by
  have hb1 := Ts.Lemmas.C15.fromBytes_encode p1 v1 [] hp1 hv1
  have hb2 := Ts.Lemmas.C15.fromBytes_encode p2 v2 [] hp2 hv2
  rw [List.append_nil] at hb1 hb2
  have e : Pes.ptsDts ([0x80, 0xC0, 0x0A] ++ encodeTs p1 v1 ++ encodeTs p2 v2)
      = (do let p ← Time.fromBytes (encodeTs p1 v1)
            let d ← Time.fromBytes (encodeTs p2 v2)
            pure (.ok (.both p d))) := rfl
  rw [e, hb1, hb2]; rfl


/-- a header `from_bytes` accepts whose PTS carries the prefix `'1111'` (the standard demands
`'0010'`): `pts_dts()` returns the value without complaint -/
theorem pts_dts_prefix_not_checked :
    parsedAccepted [0x80, 0x80, 0x05, 0xF1, 0x00, 0x01, 0x00, 0x01] ∧
    ¬ ptsDtsPrefixStd [0x80, 0x80, 0x05, 0xF1, 0x00, 0x01, 0x00, 0x01] ∧
    Pes.ptsDts [0x80, 0x80, 0x05, 0xF1, 0x00, 0x01, 0x00, 0x01] = .ok (.ok (.ptsOnly (.ok 0))) :=
  ⟨by decide +kernel, by decide +kernel, rfl⟩

/-- the public helper `Timestamp::from_pts_bytes` refuses the standard-conforming `'0011'` PTS of a
PTS+DTS pair (any 33-bit value), while `pts_dts()` on a header carrying that very pair succeeds -/
theorem from_pts_bytes_rejects_pair_prefix (v w : Nat) (hv : v < 2 ^ 33) (hw : w < 2 ^ 33) :
    Time.fromPtsBytes (encodeTs 3 v) = .ok (.error (.incorrectPrefix 2 3)) ∧
    Time.fromDtsBytes (encodeTs 1 w) = .ok (.ok w) ∧
    Pes.ptsDts ([0x80, 0xC0, 0x0A] ++ encodeTs 3 v ++ encodeTs 1 w) = .ok (.ok (.both (.ok v) (.ok w))) := by
  refine ⟨?_, ?_, pts_dts_ignores_prefix_both 3 1 v w (by omega) (by omega) hv hw⟩
  · obtain ⟨_, _, _, hp, _⟩ := Ts.Lemmas.C15.encodeTs_fields 3 v [] (by omega) hv
    rw [List.append_nil] at hp
    rw [Ts.Lemmas.C15.fromPts_unfold _ (by rw [Ts.Lemmas.C15.encodeTs_length]; omega), hp]
    rfl
  · obtain ⟨_, _, _, hp, _⟩ := Ts.Lemmas.C15.encodeTs_fields 1 w [] (by omega) hw
    have hb := Ts.Lemmas.C15.fromBytes_encode 1 w [] (by omega) hw
    rw [List.append_nil] at hp hb
    rw [Ts.Lemmas.C15.fromDts_unfold _ (by rw [Ts.Lemmas.C15.encodeTs_length]; omega), hp, if_pos rfl, hb]

/-! #### ESCR / ES_rate marker bits -/

/-- **ESCR marker bits are not inputs of the value.**  On the code's own expressions: forcing the
four marker bits to 1 (byte 0, 2, 4 mask `0x04` = bit offsets 5, 21, 37; byte 5 mask `0x01` = bit
offset 47) changes neither base nor extension.  Hence two ESCR fields that differ only in marker
bits decode to the same `ClockRef`, and no error is ever reported for a cleared marker. -/
theorem escr_ignores_markers (s0 s1 s2 s3 s4 s5 : Nat) (h0 : s0 < 256) (h2 : s2 < 256) (h4 : s4 < 256)
    (h5 : s5 < 256) :
    Pes.escrBase (s0 ||| 4) s1 (s2 ||| 4) s3 (s4 ||| 4) = Pes.escrBase s0 s1 s2 s3 s4 ∧
    Pes.escrExt (s4 ||| 4) (s5 ||| 1) = Pes.escrExt s4 s5 :=
  escr_markers_masked s0 s1 s2 s3 s4 s5 h0 h2 h4 h5

/-- **ES_rate marker bits are not inputs of the value** (byte 0 mask `0x80` = bit 0, byte 2 mask
`0x01` = bit 23) -/
theorem es_rate_ignores_markers (s0 s1 s2 : Nat) (h0 : s0 < 256) (h2 : s2 < 256) :
    Pes.esRateVal (s0 ||| 0x80) s1 (s2 ||| 1) = Pes.esRateVal s0 s1 s2 :=
  esRate_markers_masked s0 s1 s2 h0 h2

/-- accepted header, all four ESCR marker bits CLEAR and all SET: same value, no error -/
theorem escr_markers_not_checked :
    parsedAccepted [0x80, 0x20, 0x06, 0x08, 0x00, 0x08, 0x00, 0x08, 0x02] ∧
    ¬ escrMarkersStd [0x80, 0x20, 0x06, 0x08, 0x00, 0x08, 0x00, 0x08, 0x02] 3 ∧
    Pes.escr [0x80, 0x20, 0x06, 0x08, 0x00, 0x08, 0x00, 0x08, 0x02] = .ok (.ok ⟨1073774593, 1⟩) ∧
    escrMarkersStd [0x80, 0x20, 0x06, 0x0C, 0x00, 0x0C, 0x00, 0x0C, 0x03] 3 ∧
    Pes.escr [0x80, 0x20, 0x06, 0x0C, 0x00, 0x0C, 0x00, 0x0C, 0x03] = .ok (.ok ⟨1073774593, 1⟩) :=
  ⟨by decide +kernel, by decide +kernel, rfl, by decide +kernel, rfl⟩

/-- accepted header, both ES_rate marker bits CLEAR and both SET: same value, no error -/
theorem es_rate_markers_not_checked :
    parsedAccepted [0x80, 0x10, 0x03, 0x00, 0x00, 0x02] ∧
    ¬ esRateMarkersStd [0x80, 0x10, 0x03, 0x00, 0x00, 0x02] 3 ∧
    Pes.esRate [0x80, 0x10, 0x03, 0x00, 0x00, 0x02] = .ok (.ok 1) ∧
    esRateMarkersStd [0x80, 0x10, 0x03, 0x80, 0x00, 0x03] 3 ∧
    Pes.esRate [0x80, 0x10, 0x03, 0x80, 0x00, 0x03] = .ok (.ok 1) :=
  ⟨by decide +kernel, by decide +kernel, rfl, by decide +kernel, rfl⟩

/-! #### Boolean-encoded enums -/

/-- What the model's Booleans stand for (on every receiver of ≥ 3 bytes), bit numbers within the
first byte of the optional header:
* `dataAlignment = true`  ⇔ data_alignment_indicator (bit 5) = 1   — Rust `DataAlignment::Aligned`
* `copyrightUndefined = true` ⇔ copyright (bit 6) = 1 — Rust `Copyright::Undefined` (finding F5: inverted)
* `original = true`       ⇔ original_or_copy (bit 7) = 1           — Rust `OriginalOrCopy::Original`
* `pesPriority`           = PES_priority (bit 4) as 0/1.
The Rust variant names are the harness's mapping; an arm swap in the Rust source would be caught by
the differential harness, not by these theorems. -/
theorem polarity_pinned (c : Bytes) (h3 : 3 ≤ c.length) :
    Pes.dataAlignment c = .ok (readBits c 5 1 == 1) ∧
    Pes.copyrightUndefined c = .ok (readBits c 6 1 == 1) ∧
    Pes.original c = .ok (readBits c 7 1 == 1) ∧
    Pes.pesPriority c = .ok (readBits c 4 1) := by
  obtain ⟨a, b, d, _⟩ := pes_fields_exact_partial c h3
  obtain ⟨p1, p2, _, p4⟩ := parse_bits c
  rw [a, b, d, p1, p2, p4]
  exact ⟨rfl, copyright_pinned c h3, rfl, rfl⟩

/-! ### non-vacuity -/

/-- '10', priority 1, aligned, copyright 0, original; all flags set (PTS_DTS '11');
PES_header_data_length 25 = 10 + 6 + 3 + 1 + 1 + 2 + 2 extension bytes; then 3 payload bytes -/
def exC : Bytes :=
  [0x8D, 0xFF, 0x19,
   0x31, 0x23, 0x45, 0x67, 0x89,  0x11, 0x23, 0x45, 0x67, 0x01,
   0x2C, 0x00, 0x0C, 0x00, 0x0E, 0x55,
   0x80, 0x00, 0x03,
   0x17, 0xAA, 0x12, 0x34, 0xDE, 0xAD,
   0x00, 0x00, 0x01]

/-- a video PES packet (stream_id 0xE0, unbounded length) carrying `exC` -/
def exBuf : Bytes := [0x00, 0x00, 0x01, 0xE0, 0x00, 0x00] ++ exC

example : parsedAccepted exC := by decide +kernel
example : Pes.parsedFromBytes exC = .ok (some exC) := by
  rw [parsed_accept_iff, if_pos (by decide +kernel)]
example : (parse exC).ptsDts = .present (.both (.value 147928004) (.value 147927936)) := by decide +kernel
example : (parse exC).escr = .present ⟨5368741889, 298⟩ := by decide +kernel
example : (parse exC).esRate = .present 1 := by decide +kernel
example : (parse exC).trick = .present (.fastForward 2 true 3) := by decide +kernel
example : (parse exC).copyInfo = .present (.value 42) := by decide +kernel
example : (parse exC).prevCrc = .present 0x1234 := by decide +kernel
example : (parse exC).extension = .present (26, 2) := by decide +kernel
example : (parse exC).payloadOffset = 28 ∧ (parse exC).fixedEnd = 26 := by decide +kernel
example : (parse exC).priority = 1 ∧ (parse exC).dataAlignment = true ∧ (parse exC).original = true := by
  decide +kernel
-- the model on the same bytes (by evaluation)
example : Pes.escr exC = .ok (.ok ⟨5368741889, 298⟩) := rfl
example : Pes.ptsDts exC = .ok (.ok (.both (.ok 147928004) (.ok 147927936))) := rfl
example : Pes.dsmTrickMode exC = .ok (.ok (.fastForward 2 true 3)) := rfl
example : Pes.pesExtension exC = .ok (.ok (26, 2)) := rfl
example : Pes.payloadOffset exC = .ok 28 := rfl

example : Pes.headerFromBytes exBuf = .ok (some exBuf) := by
  rw [header_accept_iff, if_pos (by decide +kernel)]
example : readBits exBuf 24 8 = 0xE0 ∧ readBits exBuf 32 16 = 0 := by decide +kernel
example : Pes.contents exBuf = .ok (.parsed (some exC)) := by
  rw [contents_kind exBuf (by decide), if_neg (by decide +kernel)]
  show R.ok (Pes.Contents.parsed (if parsedAccepted exC then some exC else none)) = _
  rw [if_pos (by decide +kernel)]
/-- padding_stream: raw payload, whatever follows -/
example : Pes.contents [0x00, 0x00, 0x01, 0xBE, 0x00, 0x02, 0xFF, 0xFF] = .ok (.payload [0xFF, 0xFF]) := by
  rw [contents_kind _ (by decide), if_pos (by decide +kernel)]; rfl

-- rejected packet headers: too short; wrong start code
example : Pes.headerFromBytes [0x00, 0x00, 0x01, 0xE0, 0x00] = .ok none := by
  rw [header_accept_iff, if_neg (by decide +kernel)]
example : Pes.headerFromBytes [0x00, 0x00, 0x02, 0xE0, 0x00, 0x00] = .ok none := by
  rw [header_accept_iff, if_neg (by decide +kernel)]
-- rejected optional headers, one per reason:
-- fewer than three bytes
example : ¬ parsedAccepted [0x80, 0x00] ∧ Pes.parsedFromBytes [0x80, 0x00] = .ok none :=
  ⟨by decide +kernel, by rw [parsed_accept_iff, if_neg (by decide +kernel)]⟩
-- '10' marker wrong
example : ¬ parsedAccepted [0x40, 0x00, 0x00] ∧ Pes.parsedFromBytes [0x40, 0x00, 0x00] = .ok none :=
  ⟨by decide +kernel, by rw [parsed_accept_iff, if_neg (by decide +kernel)]⟩
-- declared header length 5 exceeds the 2 bytes available
example : ¬ parsedAccepted [0x80, 0x00, 0x05, 0xFF, 0xFF] ∧
    Pes.parsedFromBytes [0x80, 0x00, 0x05, 0xFF, 0xFF] = .ok none :=
  ⟨by decide +kernel, by rw [parsed_accept_iff, if_neg (by decide +kernel)]⟩
-- flag-implied size (PTS: 5 bytes) exceeds the declared header length 2
example : ¬ parsedAccepted [0x80, 0x80, 0x02, 0x21, 0x00, 0x01] ∧
    Pes.parsedFromBytes [0x80, 0x80, 0x02, 0x21, 0x00, 0x01] = .ok none :=
  ⟨by decide +kernel, by rw [parsed_accept_iff, if_neg (by decide +kernel)]⟩
-- the other field outcomes occur: absent, forbidden, truncated, cleared marker
example : (parse [0x80, 0x00, 0x00]).ptsDts = .absent := by decide +kernel
example : (parse [0x80, 0x40, 0x00]).ptsDts = .forbidden ∧
    Pes.ptsDts [0x80, 0x40, 0x00] = .ok (.error .ptsDtsFlagsInvalid) := ⟨by decide +kernel, rfl⟩
example : (parse [0x80, 0x80, 0x02, 0x21, 0x00, 0x01]).ptsDts = .truncated ∧
    Pes.ptsDts [0x80, 0x80, 0x02, 0x21, 0x00, 0x01] = .ok (.error .notEnoughData) :=
  ⟨by decide +kernel, rfl⟩
example : (parse [0x80, 0x80, 0x05, 0x21, 0x00, 0x00, 0x00, 0x01]).ptsDts
    = .present (.ptsOnly (.markerCleared 23)) := by decide +kernel
example : (parse [0x80, 0x04, 0x01, 0x2A]).copyInfo = .present .markerCleared ∧
    Pes.additionalCopyInfo [0x80, 0x04, 0x01, 0x2A] = .ok (.error .markerBitNotSet) :=
  ⟨by decide +kernel, rfl⟩

/-! #### examples for the readings -/
/-- trick-mode bytes 0xA0 and 0xBF: control 5, data bits 00000 resp. 11111 — same API value -/
example : Pes.dsmTrickMode [0x80, 0x08, 0x01, 0xA0] = .ok (.ok (.reserved 5))
    ∧ Pes.dsmTrickMode [0x80, 0x08, 0x01, 0xBF] = .ok (.ok (.reserved 5)) := ⟨rfl, rfl⟩
example : trickStdAt [0x80, 0x08, 0x01, 0xA0] 3 = .reserved 5 0
    ∧ trickStdAt [0x80, 0x08, 0x01, 0xBF] 3 = .reserved 5 31 := by decide +kernel
/-- the hypotheses of `trick_reserved_exposes_control` hold for them -/
example : (flagsOf [0x80, 0x08, 0x01, 0xBF]).trick = true
    ∧ trickPos (flagsOf [0x80, 0x08, 0x01, 0xBF]) + 1 ≤ limit [0x80, 0x08, 0x01, 0xBF]
    ∧ readBits [0x80, 0x08, 0x01, 0xBF] (8 * trickPos (flagsOf [0x80, 0x08, 0x01, 0xBF])) 3 = 5 := by
  decide +kernel
/-- control 7 (0xE5) is `Reserved { 7 }`; control 4 (0x9F) exposes all five data bits -/
example : Pes.dsmTrickMode [0x80, 0x08, 0x01, 0xE5] = .ok (.ok (.reserved 7))
    ∧ Pes.dsmTrickMode [0x80, 0x08, 0x01, 0x9F] = .ok (.ok (.slowReverse 31)) := ⟨rfl, rfl⟩
/-- `exC` (control 0, fast_forward): `trick_exposes_std_reading` applies, all eight bits exposed -/
example : (flagsOf exC).trick = true ∧ trickPos (flagsOf exC) + 1 ≤ limit exC
    ∧ (trickStdAt exC (trickPos (flagsOf exC))).exposed = .fastForward 2 true 3 := by decide +kernel
example : trickPos (flagsOf exC) = 22 ∧ (encodeTs 3 0x123456789).length = 5 := by decide +kernel
example : Pes.ptsDts ([0x80, 0x80, 0x05] ++ encodeTs 15 0x123456789) = .ok (.ok (.ptsOnly (.ok 0x123456789))) :=
  pts_dts_ignores_prefix 15 _ (by decide) (by decide)
/-- the standard-conforming pair ('0011', '0001') satisfies `ptsDtsPrefixStd` -/
example : ptsDtsPrefixStd ([0x80, 0xC0, 0x0A] ++ encodeTs 3 7 ++ encodeTs 1 5) := by decide +kernel


/-! ### tie to the value table regenerated from `StreamId::is_parsed` in `/repo/src/pes.rs` -/
/-- the stream ids the SOURCE lists as carrying no optional header are exactly those of the model
(and, by `isParsed_table`, those of ISO/IEC 13818-1 2.4.3.7) -/
theorem tie_no_header_ids : ∀ sid : Fin 256,
    Ts.Pes.isParsed sid.val = !(Ts.Gen.noHeaderIds.contains sid.val) := by decide +kernel
theorem tie_no_header_ids_count : Ts.Gen.noHeaderIds.length = 8 := by decide

end Ts.Props.C14
