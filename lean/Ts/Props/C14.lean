import Ts.Model.Pes
import Ts.Spec.Bits
import Ts.Spec.PesSpec
import Ts.Lemmas.C14c
import Ts.Gen.Consts
import Ts.Gen.Tables
/-!
# C14 — PES packet header fields are bit-exact, and rejection is exact

For every byte string offered as the start of a PES packet: `PesHeader::from_bytes`,
`stream_id`, `pes_packet_length`, `contents`, `PesParsedContents::from_bytes` and every accessor
of `PesParsedContents` (the model `Ts/Model/Pes.lean`, transcribed from `pes.rs:280-853`: byte
masks, shifts, and an offset chain recomputed from the flag byte by each accessor) equal the
outcome of the *sequential cursor parser* of `Ts/Spec/PesSpec.lean`, which reads the syntax table
of ISO/IEC 13818-1 2.4.3.7 top to bottom with `uimsbf` bit fields (`readBits`).
All results are `R.ok`: none of the evaluated operations panics (indexing, slicing, the `usize`
subtractions inside the `warn!` arguments, `pts_dts_end`'s and `from_id`'s panic arms,
`ClockRef::from_parts`' and `EsRate::new`'s assertions).

The spec's outcomes are mapped to the code's result types by the translations of
`Ts/Lemmas/C14.lean` (`resOf`: present ↦ `Ok`, absent ↦ `FieldNotPresent`, truncated ↦
`NotEnoughData`, forbidden ↦ `PtsDtsFlagsInvalid`; `tsRes`, `ptsDtsConv`, `escrConv`, `trickConv`,
`copyInfoRes` are constructor-for-constructor).

Two deviations are kept visible:
* **F5 (known finding)** `copyright()` has the inverted polarity: see `copyright_inverted`.
* `pes_extension()` and `payload()` are *not* total on receivers that `from_bytes` would reject
  (`pesExtension_panics_unaccepted`, `payloadOffset_panics_unaccepted`); such receivers cannot be
  constructed through the public API, so these are not reachable panics.
-/
namespace Ts.Props.C14
open Ts Ts.Spec Ts.Spec.PesSpec Ts.Lemmas.C14

/-! ### ties to the constants regenerated from `/repo/src/pes.rs` -/
theorem tie_fixed_header : Ts.Gen.pesFixedHeaderSize = 6 ∧ Pes.HDR_FIXED = 6 := by decide
theorem tie_parsed_fixed : Ts.Gen.pesParsedFixed = 3 ∧ Pes.FIXED = 3 := by decide
theorem tie_timestamp_size : Ts.Gen.pesTimestampSize = 5 ∧ Pes.TIMESTAMP_SIZE = 5 := by decide
theorem tie_escr_size : Ts.Gen.pesEscrSize = 6 ∧ Pes.ESCR_SIZE = 6 := by decide
theorem tie_es_rate_size : Ts.Gen.pesEsRateSize = 3 ∧ Pes.ES_RATE_SIZE = 3 := by decide
theorem tie_es_rate_bound : Ts.Gen.esRateBound = 2 ^ 22 ∧ (1 <<< 22 : Nat) = 2 ^ 22 := by decide

/-! ### the 6-byte packet header -/

/-- `PesHeader::from_bytes` never panics and accepts exactly the byte strings of at least six
bytes that start with `packet_start_code_prefix = 0x000001` -/
theorem header_accept_iff (buf : Bytes) :
    Pes.headerFromBytes buf =
      .ok (if 6 ≤ buf.length ∧ readBits buf 0 24 = 1 then some buf else none) :=
  headerFromBytes_eq buf

theorem stream_id_exact (buf : Bytes) (h : 6 ≤ buf.length) :
    Pes.streamId buf = .ok (readBits buf 24 8) := by
  unfold Pes.streamId
  rw [byteAt_ok buf 3 (by omega), rb_byte buf 24 3 rfl]

theorem packet_length_exact (buf : Bytes) (h : 6 ≤ buf.length) :
    Pes.pesPacketLength buf = .ok (readBits buf 32 16) := by
  unfold Pes.pesPacketLength
  rw [byteAt_ok buf 4 (by omega), byteAt_ok buf 5 (by omega)]
  exact congrArg R.ok (crc_val buf 4)

/-- `StreamId::is_parsed` is the complement of the standard's list of stream ids without optional
header -/
theorem isParsed_table : ∀ sid, sid < 256 → Pes.isParsed sid = !(noHeaderIds.contains sid) := by
  decide +kernel

/-- `PesHeader::contents` (for any header `from_bytes` accepts; only the length is used): raw
payload exactly for the stream ids that carry no optional header, otherwise the result of
`PesParsedContents::from_bytes` on the bytes after the packet header -/
theorem contents_kind (buf : Bytes) (h : 6 ≤ buf.length) :
    Pes.contents buf =
      .ok (if readBits buf 24 8 ∈ noHeaderIds then .payload (buf.drop 6)
           else .parsed (if parsedAccepted (buf.drop 6) then some (buf.drop 6) else none)) :=
  contents_eq buf h

/-! ### acceptance of the optional header -/

/-- the acceptance predicate of the spec, spelled out -/
theorem parsedAccepted_def (c : Bytes) : parsedAccepted c ↔
    (3 ≤ c.length ∧ readBits c 0 2 = 2 ∧ 3 + readBits c 16 8 ≤ c.length
      ∧ fixedFieldsEnd (flagsOf c) ≤ 3 + readBits c 16 8) := Iff.rfl

/-- `PesParsedContents::from_bytes` never panics (in particular the subtractions evaluated for the
`warn!` messages never underflow and `pts_dts_end` never reaches its panic arm) and rejects
exactly when the three fixed bytes are missing, the `'10'` marker is wrong, the declared header
length exceeds the bytes available, or the flag-implied fixed-size fields exceed the declared
header length -/
theorem parsed_accept_iff (c : Bytes) :
    Pes.parsedFromBytes c = .ok (if parsedAccepted c then some c else none) :=
  parsedFromBytes_eq c

/-- the cursor the sequential parser reaches after the fixed-size fields is the flag-only
`fixedFieldsEnd` used by the acceptance predicate -/
theorem fixedEnd_consistent (c : Bytes) : (parse c).fixedEnd = fixedFieldsEnd (flagsOf c) := by
  rw [parse_fixedEnd, fixedFieldsEnd_eq]

/-! ### field exactness -/

/-- Every accessor equals the outcome of the sequential parser, on EVERY receiver of at least
three bytes (accepted by `from_bytes` or not), except `copyright` (finding F5, below).
`pes_extension` and `payload` need the side conditions shown, which acceptance implies
(`pes_fields_exact_accepted`). -/
theorem pes_fields_exact_partial (c : Bytes) (h3 : 3 ≤ c.length) :
    Pes.pesPriority c = .ok (parse c).priority ∧
    Pes.dataAlignment c = .ok (parse c).dataAlignment ∧
    Pes.original c = .ok (parse c).original ∧
    Pes.ptsDts c = .ok (resOf ptsDtsConv (parse c).ptsDts) ∧
    Pes.escr c = .ok (resOf escrConv (parse c).escr) ∧
    Pes.esRate c = .ok (resOf id (parse c).esRate) ∧
    Pes.dsmTrickMode c = .ok (resOf trickConv (parse c).trick) ∧
    Pes.additionalCopyInfo c = .ok (copyInfoRes (parse c).copyInfo) ∧
    Pes.previousCrc c = .ok (resOf id (parse c).prevCrc) ∧
    (fixedFieldsEnd (flagsOf c) ≤ 3 + hdl c ∨ c.length < 3 + hdl c →
      Pes.pesExtension c = .ok (resOf id (parse c).extension)) ∧
    (3 + hdl c ≤ c.length → Pes.payloadOffset c = .ok (parse c).payloadOffset) :=
  ⟨pesPriority_exact c h3, dataAlignment_exact c h3, original_exact c h3, ptsDts_exact c h3,
   escr_exact c h3, esRate_exact c h3, dsmTrickMode_exact c h3, additionalCopyInfo_exact c h3,
   previousCrc_exact c h3, pesExtension_exact c h3, payloadOffset_exact c h3⟩

/-- for receivers `from_bytes` accepts, the extension is never truncated and starts where the
fixed-size fields end, and the payload starts at `3 + PES_header_data_length` -/
theorem pes_fields_exact_accepted (c : Bytes) (h : Pes.parsedFromBytes c = .ok (some c)) :
    parsedAccepted c ∧
    Pes.pesExtension c = .ok (resOf id (parse c).extension) ∧
    (parse c).extension = (if (flagsOf c).ext then
        .present (fixedFieldsEnd (flagsOf c), 3 + hdl c - fixedFieldsEnd (flagsOf c)) else .absent) ∧
    Pes.payloadOffset c = .ok (3 + hdl c) ∧ 3 + hdl c ≤ c.length := by
  have hacc : parsedAccepted c := by
    rw [parsed_accept_iff] at h
    by_cases hp : parsedAccepted c
    · exact hp
    · rw [if_neg hp] at h; cases h
  obtain ⟨h3, _, hh, hf⟩ := hacc
  have hacc : parsedAccepted c := ⟨h3, by assumption, hh, hf⟩
  refine ⟨hacc, pesExtension_exact c h3 (Or.inl hf), ?_, ?_, hh⟩
  · rw [parse_extension, ← fixedFieldsEnd_eq]
    cases (flagsOf c).ext
    · rfl
    · simp [hf, hh]
  · rw [payloadOffset_exact c h3 hh, parse_payloadOffset]

/-- `pes_extension()` is not total on receivers `from_bytes` rejects: here the flag-implied end
(8) lies after the declared header end (3), and `&buf[8..3]` panics.  (`from_bytes` returns
`None` for these bytes, so the receiver cannot be constructed through the public API.) -/
theorem pesExtension_panics_unaccepted :
    Pes.pesExtension [0x80, 0x81, 0x00] = .panic "slice index starts after end" ∧
    Pes.parsedFromBytes [0x80, 0x81, 0x00] = .ok none := ⟨rfl, rfl⟩

/-- `payload()` is not total on receivers `from_bytes` rejects -/
theorem payloadOffset_panics_unaccepted :
    Pes.payloadOffset [0x80, 0x00, 0x05] = .panic "range start index out of range" ∧
    Pes.parsedFromBytes [0x80, 0x00, 0x05] = .ok none := ⟨rfl, rfl⟩

/-- panic freedom, extracted: on every receiver of at least three bytes `escr` never trips
`ClockRef::from_parts`' assertions, `es_rate` never trips `assert!(es_rate < 1 << 22)`, and
`dsm_trick_mode` never reaches `from_id`'s panic arm -/
theorem accessors_never_panic (c : Bytes) (h3 : 3 ≤ c.length) :
    (Pes.ptsDts c).isOk ∧ (Pes.escr c).isOk ∧ (Pes.esRate c).isOk ∧ (Pes.dsmTrickMode c).isOk ∧
    (Pes.additionalCopyInfo c).isOk ∧ (Pes.previousCrc c).isOk := by
  obtain ⟨_, _, _, a, b, d, e, f, g, _⟩ := pes_fields_exact_partial c h3
  rw [a, b, d, e, f, g]; exact ⟨rfl, rfl, rfl, rfl, rfl, rfl⟩

/-- every ES_rate the model yields satisfies the `EsRate` invariant -/
theorem esRate_lt (c : Bytes) (p : Nat) : esRateAt c p < Ts.Gen.esRateBound := by
  have := readBits_lt c (8 * p + 1) 22
  unfold esRateAt Ts.Gen.esRateBound; omega

/-! ### KNOWN FINDING F5: `copyright()` polarity -/

/-- The model's (= the code's) `copyright()` answers `Copyright::Undefined` (`true`) exactly when
the copyright bit (bit 6 of the first byte) is 1. -/
theorem copyright_pinned (c : Bytes) (h3 : 3 ≤ c.length) :
    Pes.copyrightUndefined c = .ok (readBits c 6 1 == 1) :=
  Ts.Lemmas.C14.copyright_pinned c h3

/-- ISO/IEC 13818-1 2.4.3.7: *copyright = 1: the material is protected by copyright; 0: not
defined whether it is protected*.  The spec's `(parse c).copyright` is `true` for "protected", so
the standard-conforming answer for "undefined" would be its NEGATION; the code returns it
un-negated: "Undefined" is reported exactly when the standard says "protected". -/
theorem copyright_inverted (c : Bytes) (h3 : 3 ≤ c.length) :
    Pes.copyrightUndefined c = .ok (parse c).copyright := by
  rw [(parse_bits c).2.2.1]; exact Ts.Lemmas.C14.copyright_pinned c h3

/-- the standard-conforming statement is false for the model (witness: all-clear flags) -/
theorem copyright_exact_false :
    ¬ ∀ c : Bytes, 3 ≤ c.length → Pes.copyrightUndefined c = .ok (!(parse c).copyright) := by
  intro h
  have h1 := h [0x80, 0x00, 0x00] (by decide)
  rw [copyright_inverted _ (by decide)] at h1
  have h2 : (parse [0x80, 0x00, 0x00]).copyright = false := by decide +kernel
  rw [h2] at h1
  cases h1

/-! ### non-vacuity -/

/-- '10', priority 1, aligned, copyright 0, original; all flags set (PTS_DTS '11');
PES_header_data_length 25 = 10 + 6 + 3 + 1 + 1 + 2 + 2 extension bytes; then 3 payload bytes -/
def exC : Bytes :=
  [0x8D, 0xFF, 0x19,
   0x31, 0x23, 0x45, 0x67, 0x89,  0x11, 0x23, 0x45, 0x67, 0x01,
   0x2C, 0x00, 0x0C, 0x00, 0x0E, 0x55,
   0x80, 0x00, 0x03,
   0x17, 0xAA, 0x12, 0x34, 0xDE, 0xAD,
   0x00, 0x00, 0x01]

/-- a video PES packet (stream_id 0xE0, unbounded length) carrying `exC` -/
def exBuf : Bytes := [0x00, 0x00, 0x01, 0xE0, 0x00, 0x00] ++ exC

example : parsedAccepted exC := by decide +kernel
example : Pes.parsedFromBytes exC = .ok (some exC) := by
  rw [parsed_accept_iff, if_pos (by decide +kernel)]
example : (parse exC).ptsDts = .present (.both (.value 147928004) (.value 147927936)) := by decide +kernel
example : (parse exC).escr = .present ⟨5368741889, 298⟩ := by decide +kernel
example : (parse exC).esRate = .present 1 := by decide +kernel
example : (parse exC).trick = .present (.fastForward 2 true 3) := by decide +kernel
example : (parse exC).copyInfo = .present (.value 42) := by decide +kernel
example : (parse exC).prevCrc = .present 0x1234 := by decide +kernel
example : (parse exC).extension = .present (26, 2) := by decide +kernel
example : (parse exC).payloadOffset = 28 ∧ (parse exC).fixedEnd = 26 := by decide +kernel
example : (parse exC).priority = 1 ∧ (parse exC).dataAlignment = true ∧ (parse exC).original = true := by
  decide +kernel
-- the model on the same bytes (by evaluation)
example : Pes.escr exC = .ok (.ok ⟨5368741889, 298⟩) := rfl
example : Pes.ptsDts exC = .ok (.ok (.both (.ok 147928004) (.ok 147927936))) := rfl
example : Pes.dsmTrickMode exC = .ok (.ok (.fastForward 2 true 3)) := rfl
example : Pes.pesExtension exC = .ok (.ok (26, 2)) := rfl
example : Pes.payloadOffset exC = .ok 28 := rfl

example : Pes.headerFromBytes exBuf = .ok (some exBuf) := by
  rw [header_accept_iff, if_pos (by decide +kernel)]
example : readBits exBuf 24 8 = 0xE0 ∧ readBits exBuf 32 16 = 0 := by decide +kernel
example : Pes.contents exBuf = .ok (.parsed (some exC)) := by
  rw [contents_kind exBuf (by decide), if_neg (by decide +kernel)]
  show R.ok (Pes.Contents.parsed (if parsedAccepted exC then some exC else none)) = _
  rw [if_pos (by decide +kernel)]
/-- padding_stream: raw payload, whatever follows -/
example : Pes.contents [0x00, 0x00, 0x01, 0xBE, 0x00, 0x02, 0xFF, 0xFF] = .ok (.payload [0xFF, 0xFF]) := by
  rw [contents_kind _ (by decide), if_pos (by decide +kernel)]; rfl

-- rejected packet headers: too short; wrong start code
example : Pes.headerFromBytes [0x00, 0x00, 0x01, 0xE0, 0x00] = .ok none := by
  rw [header_accept_iff, if_neg (by decide +kernel)]
example : Pes.headerFromBytes [0x00, 0x00, 0x02, 0xE0, 0x00, 0x00] = .ok none := by
  rw [header_accept_iff, if_neg (by decide +kernel)]
-- rejected optional headers, one per reason:
-- fewer than three bytes
example : ¬ parsedAccepted [0x80, 0x00] ∧ Pes.parsedFromBytes [0x80, 0x00] = .ok none :=
  ⟨by decide +kernel, by rw [parsed_accept_iff, if_neg (by decide +kernel)]⟩
-- '10' marker wrong
example : ¬ parsedAccepted [0x40, 0x00, 0x00] ∧ Pes.parsedFromBytes [0x40, 0x00, 0x00] = .ok none :=
  ⟨by decide +kernel, by rw [parsed_accept_iff, if_neg (by decide +kernel)]⟩
-- declared header length 5 exceeds the 2 bytes available
example : ¬ parsedAccepted [0x80, 0x00, 0x05, 0xFF, 0xFF] ∧
    Pes.parsedFromBytes [0x80, 0x00, 0x05, 0xFF, 0xFF] = .ok none :=
  ⟨by decide +kernel, by rw [parsed_accept_iff, if_neg (by decide +kernel)]⟩
-- flag-implied size (PTS: 5 bytes) exceeds the declared header length 2
example : ¬ parsedAccepted [0x80, 0x80, 0x02, 0x21, 0x00, 0x01] ∧
    Pes.parsedFromBytes [0x80, 0x80, 0x02, 0x21, 0x00, 0x01] = .ok none :=
  ⟨by decide +kernel, by rw [parsed_accept_iff, if_neg (by decide +kernel)]⟩
-- the other field outcomes occur: absent, forbidden, truncated, cleared marker
example : (parse [0x80, 0x00, 0x00]).ptsDts = .absent := by decide +kernel
example : (parse [0x80, 0x40, 0x00]).ptsDts = .forbidden ∧
    Pes.ptsDts [0x80, 0x40, 0x00] = .ok (.error .ptsDtsFlagsInvalid) := ⟨by decide +kernel, rfl⟩
example : (parse [0x80, 0x80, 0x02, 0x21, 0x00, 0x01]).ptsDts = .truncated ∧
    Pes.ptsDts [0x80, 0x80, 0x02, 0x21, 0x00, 0x01] = .ok (.error .notEnoughData) :=
  ⟨by decide +kernel, rfl⟩
example : (parse [0x80, 0x80, 0x05, 0x21, 0x00, 0x00, 0x00, 0x01]).ptsDts
    = .present (.ptsOnly (.markerCleared 23)) := by decide +kernel
example : (parse [0x80, 0x04, 0x01, 0x2A]).copyInfo = .present .markerCleared ∧
    Pes.additionalCopyInfo [0x80, 0x04, 0x01, 0x2A] = .ok (.error .markerBitNotSet) :=
  ⟨by decide +kernel, rfl⟩

/-! ### tie to the value table regenerated from `StreamId::is_parsed` in `/repo/src/pes.rs` -/
/-- the stream ids the SOURCE lists as carrying no optional header are exactly those of the model
(and, by `isParsed_table`, those of ISO/IEC 13818-1 2.4.3.7) -/
theorem tie_no_header_ids : ∀ sid : Fin 256,
    Ts.Pes.isParsed sid.val = !(Ts.Gen.noHeaderIds.contains sid.val) := by decide +kernel
theorem tie_no_header_ids_count : Ts.Gen.noHeaderIds.length = 8 := by decide

end Ts.Props.C14
