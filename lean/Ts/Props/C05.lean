import Ts.Spec.Routing
import Ts.Lemmas.C05
import Ts.Lemmas.C05Run
import Ts.Props.C16
import Ts.Props.C18
/-!
# C05 — routing follows the latest valid PAT and PMTs

After any history of valid PAT and PMT versions, a packet on a PID listed by the most recent PMT of a
program listed by the most recent PAT is handled by a handler the application built from a request
naming that PID, its stream type and the owning program map; PMT PIDs are requested as program-map
PIDs with the announced program number and network entries as NIT PIDs.  PIDs dropped by a newer
version of the same table stop being handled by the handler that table installed, and a new version
takes effect for the very next transport packet.

Structure of the proof (all on the model `Ts/Model/App.lean`, spec `Ts/Spec/Routing.lean`):

* `outdated_spec` — `FixedBitSet::difference`
* `pat_new_table_effect`, `pmt_new_table_effect` (+ `…_entry_effect`, `…_ignored`) — what ONE section
  handed to `PatProcessor::section` / `PmtProcessor::section` requests and queues; never a panic
* `routing_after_table` — the dispatcher's table after the queue is drained, slot by slot
* `pat_handler_applies_section`, `pmt_handler_applies_section`, `takes_effect_next_packet…` — from the
  transport packet completing the section to the table that dispatches the NEXT packet (C18)
* `removal_partial…` — dropped PIDs are removed if the SAME PMT filter instance applied the older version
* `removal_counterexample` — known finding F7: they are NOT when a PAT version was applied in between
  (the application is asked for a new PMT filter for every listed program; its
  `filters_registered` starts empty).  Concrete history evaluated by the kernel.
-/
namespace Ts.Props.C05
open Ts Ts.Tables Ts.App Ts.Demux Ts.Spec.TableSpec Ts.Spec.Routing Ts.Lemmas.C05

/-! ### `registered \ seen` -/

/-- `outdated registered seen` is the strictly ascending list of exactly the 13-bit PIDs that are
registered and not seen -/
theorem outdated_spec (registered seen : List Nat) :
    (outdated registered seen).Pairwise (· < ·) ∧
    ∀ p, p ∈ outdated registered seen ↔ p < 8192 ∧ p ∈ registered ∧ p ∉ seen :=
  ⟨outdated_sorted registered seen, mem_outdated registered seen⟩

/-- no PID is both listed by the table and removed as outdated -/
theorem outdated_disjoint_seen (registered seen : List Nat) (p : Nat) :
    ¬ (p ∈ seen ∧ p ∈ outdated registered seen) :=
  fun h => ((mem_outdated registered seen p).1 h.2).2.2 h.1

/-- a filter that has applied no table yet removes nothing (the root of F7) -/
theorem outdated_fresh (seen : List Nat) : outdated [] seen = [] := outdated_nil seen

/-! ### the application's answer to a request -/

/-- `construct` hands out the next tag, logs exactly one `construct` event and answers with
`handlerFor`: a fresh PMT filter (nothing registered) for a program-map request, a PES filter for a
stream request iff the stream type `is_pes`, a recorder otherwise -/
theorem construct_effect (c : Ctx) (req : Req) :
    construct c req = (handlerFor req c.nextTag,
      { c with nextTag := c.nextTag + 1, trace := Ev.construct req c.nextTag :: c.trace }) :=
  construct_eq c req

theorem handler_kinds (tag pid prog pmtPid st pcr : Nat) (ed pd : Bytes) :
    handlerFor (.pmt pid prog) tag = .pmt pid prog {} [] ∧
    handlerFor (.nit pid) tag = .recorder tag ∧
    handlerFor (.stream pmtPid st pid pcr ed pd) tag = (if isPes st then .pes tag {} else .recorder tag) :=
  ⟨rfl, rfl, rfl⟩

/-- the context after the callbacks of one table: same configuration, one tag and one event per
request (events oldest first = `constructEvents`; the trace is kept most recent first) -/
theorem ctx_after_table (c : Ctx) (reqs : List (Nat × Req)) :
    (ctxAfter c reqs).cfg = c.cfg ∧ (ctxAfter c reqs).nextTag = c.nextTag + reqs.length ∧
    (ctxAfter c reqs).trace = (constructEvents c.nextTag reqs).reverse ++ c.trace ∧
    (constructEvents c.nextTag reqs).length = reqs.length ∧
    ∀ i, (constructEvents c.nextTag reqs)[i]? = reqs[i]?.map fun x => Ev.construct x.2 (c.nextTag + i) :=
  ⟨rfl, rfl, rfl, constructEvents_length reqs _, constructEvents_get reqs _⟩

/-! ### one PAT section -/

/-- `PatProcessor::section` on a section with table_id 0 (`data` = whole section incl. CRC, as
delivered by the CRC layer, which passes nothing shorter than 12 bytes — `crc_layer_min_length`):
never panics; requests and queues exactly `patChanges`: one request + insert per entry of the body
in order with consecutive tags from `c.nextTag`, then one remove per outdated PID ascending; the
filter now remembers exactly the PIDs just listed -/
theorem pat_new_table_effect (c : Ctx) (reg : List Nat) (data : Bytes)
    (hlen : 12 ≤ data.length) (htid : byteD data 0 = 0) :
    let entries := specPat ((data.drop 8).take (data.length - 12))
    let reqs := patRequests entries
    let seen := entries.map PatEntry.pid
    patSection c reg data = .ok (ctxAfter c reqs, seen,
      (built c.nextTag reqs).map (fun x => Change.insert x.1 x.2)
        ++ (outdated reg seen).map Change.remove) := by
  have := patSection_eq c reg data hlen
  rw [if_neg (by simp [htid])] at this
  exact this

/-- the `i`-th entry `e`: requested as a program-map PID with the announced program number, or as
the NIT PID for program number 0; the event carries tag `c.nextTag + i`; the inserted handler is the
one `construct` returns for that request at that tag -/
theorem pat_entry_effect (c : Ctx) (body : Bytes) (i : Nat) (e : PatEntry)
    (he : (specPat body)[i]? = some e) :
    let reqs := patRequests (specPat body)
    let req := match (generalizing := false) e with
      | .program pn pid => Req.pmt pid pn
      | .network pid => Req.nit pid
    reqs[i]? = some (e.pid, req) ∧
    (constructEvents c.nextTag reqs)[i]? = some (Ev.construct req (c.nextTag + i)) ∧
    (∀ ci : Ctx, ci.nextTag = c.nextTag + i →
      (built c.nextTag reqs)[i]? = some (e.pid, (construct ci req).1)) ∧
    (built c.nextTag reqs)[i]? = some (e.pid, match (generalizing := false) e with
      | .program pn pid => Handler.pmt pid pn {} []
      | .network _ => Handler.recorder (c.nextTag + i)) := by
  have hr : (patRequests (specPat body))[i]? = some (e.pid, patRequest e) := by
    unfold patRequests; rw [List.getElem?_map, he]; rfl
  dsimp only
  cases e with
  | network pid =>
    exact ⟨hr, by rw [constructEvents_get, hr]; rfl,
      fun ci hci => by rw [built_get, hr, construct_eq, hci]; rfl, by rw [built_get, hr]; rfl⟩
  | program pn pid =>
    exact ⟨hr, by rw [constructEvents_get, hr]; rfl,
      fun ci hci => by rw [built_get, hr, construct_eq, hci]; rfl, by rw [built_get, hr]; rfl⟩

/-- a section with any other table_id on the PAT PID: nothing is requested, queued or forgotten -/
theorem pat_other_table_ignored (c : Ctx) (reg : List Nat) (data : Bytes)
    (hlen : 12 ≤ data.length) (htid : byteD data 0 ≠ 0) :
    patSection c reg data = .ok (c, reg, []) := by
  rw [patSection_eq c reg data hlen, if_pos htid]

/-- the entries are exactly what C16 proves `PatSection::programs()` yields; all PIDs are 13-bit -/
theorem pat_entries_are_parsed (body : Bytes) :
    patProgramsAll body = .ok (specPat body) ∧ ∀ p ∈ (specPat body).map PatEntry.pid, p < 8192 :=
  ⟨(C16.pat_entries body).1, pat_pids_13bit body⟩

/-! ### one PMT section -/

/-- what the model reads from an accepted body is what the spec names -/
theorem pmt_body_fields (body : Bytes) (hacc : specPmtAccept body) :
    pmtFromBytes body = .ok (some body) ∧
    pmtStreams body = .ok (streamsOf body) ∧
    pmtPcrPid body = .ok (specPcrPid body) ∧
    pmtDescriptorBytes body = .ok (specProgramDescBytes body) ∧
    ∀ p ∈ (streamsOf body).map StreamInfo.pid, p < 8192 := by
  refine ⟨?_, ?_, (C16.pmt_fields body hacc).1, (C16.pmt_fields body hacc).2.2.2, pmt_pids_13bit body⟩
  · rw [C16.pmt_accept_iff, if_pos hacc]
  · exact Ts.Lemmas.C16.pmtStreams_eq body hacc

/-- `PmtProcessor::section` (filter for the PMT on `pmtPid`) on a section with table_id 2 whose body
`PmtSection::from_bytes` accepts: never panics (also with the `touch` configuration that walks the
whole table and its descriptors); requests and queues exactly: one stream request naming the owning
program-map PID, the stream type, the elementary PID, the PCR PID and the descriptor bytes, plus
one insert, per stream entry in order with consecutive tags; then one remove per outdated PID
ascending; the filter now remembers exactly the PIDs just listed -/
theorem pmt_new_table_effect (c : Ctx) (pmtPid : Nat) (reg : List Nat) (data : Bytes)
    (hlen : 12 ≤ data.length) (htid : byteD data 0 = 2)
    (hacc : specPmtAccept ((data.drop 8).take (data.length - 12))) :
    let body := (data.drop 8).take (data.length - 12)
    let streams := streamsOf body
    let reqs := pmtRequests pmtPid (specPcrPid body) (specProgramDescBytes body) streams
    let seen := streams.map StreamInfo.pid
    pmtSection c pmtPid reg data = .ok (ctxAfter c reqs, seen,
      (built c.nextTag reqs).map (fun x => Change.insert x.1 x.2)
        ++ (outdated reg seen).map Change.remove) := by
  exact pmtSection_tid2 c pmtPid reg data hlen hacc htid

/-- the `i`-th stream entry `s`: the request, the event with tag `c.nextTag + i`, the handler
`construct` returns for it — a PES filter iff `is_pes(stream_type)`, else a recorder -/
theorem pmt_entry_effect (c : Ctx) (pmtPid : Nat) (body : Bytes) (i : Nat) (s : StreamInfo)
    (hs : (streamsOf body)[i]? = some s) :
    let reqs := pmtRequests pmtPid (specPcrPid body) (specProgramDescBytes body) (streamsOf body)
    let req := Req.stream pmtPid s.streamType s.pid (specPcrPid body) s.descBytes (specProgramDescBytes body)
    reqs[i]? = some (s.pid, req) ∧
    (constructEvents c.nextTag reqs)[i]? = some (Ev.construct req (c.nextTag + i)) ∧
    (∀ ci : Ctx, ci.nextTag = c.nextTag + i →
      (built c.nextTag reqs)[i]? = some (s.pid, (construct ci req).1)) ∧
    (built c.nextTag reqs)[i]? = some (s.pid,
      if isPes s.streamType then Handler.pes (c.nextTag + i) {} else Handler.recorder (c.nextTag + i)) := by
  have hr : (pmtRequests pmtPid (specPcrPid body) (specProgramDescBytes body) (streamsOf body))[i]?
      = some (s.pid, streamRequest pmtPid (specPcrPid body) (specProgramDescBytes body) s) := by
    unfold pmtRequests; rw [List.getElem?_map, hs]; rfl
  dsimp only
  refine ⟨hr, ?_, ?_, ?_⟩
  · rw [constructEvents_get, hr]; rfl
  · intro ci hci
    rw [built_get, hr, construct_eq, hci]; rfl
  · rw [built_get, hr]; rfl

/-- a body `PmtSection::from_bytes` rejects, or any other table_id: nothing happens -/
theorem pmt_rejected_or_other_table_ignored (c : Ctx) (pmtPid : Nat) (reg : List Nat) (data : Bytes)
    (hlen : 12 ≤ data.length)
    (h : ¬ specPmtAccept ((data.drop 8).take (data.length - 12)) ∨ byteD data 0 ≠ 2) :
    pmtSection c pmtPid reg data = .ok (c, reg, []) := by
  rw [pmtSection_eq c pmtPid reg data hlen]
  dsimp only
  by_cases ha : specPmtAccept ((data.drop 8).take (data.length - 12))
  · rcases h with h | h
    · exact absurd ha h
    · rw [if_neg (not_not_intro ha), if_pos h]
  · rw [if_pos ha]

/-- the CRC layer never hands on a section shorter than 12 bytes, so the length hypotheses above
always hold where the processors are called (`runDeliveries`) -/
theorem crc_layer_min_length (bypass : Bool) (data : Bytes) (h : Psi.crcPass bypass data = .ok true) :
    12 ≤ data.length := crcPass_true_len bypass data h

/-! ### the dispatcher's table after the queue is drained -/

/-- Let `t'` be the table after applying `inserts ++ removes` of one table (`listed` = (pid, handler)
per entry in order, `reg` = what the previous version applied by this filter had installed). Then
slot by slot `t'` is the spec's function update `applied`; in particular
(1) a listed PID holds the handler built for its LAST entry,
(2) an outdated PID is empty (not `contains`),
(3) every other slot is unchanged,
(4) no PID is both listed and outdated. -/
theorem routing_after_table {H : Type} (t : Tab H) (listed : List (Nat × H)) (reg seen : List Nat)
    (hseen : listed.map (·.1) = seen) :
    let t' := applyChanges t (listed.map (fun x => Change.insert x.1 x.2)
      ++ (outdated reg seen).map Change.remove)
    (∀ p, t'.get p = applied t.get listed reg p) ∧
    (∀ pre p h post, listed = pre ++ (p, h) :: post → (∀ x ∈ post, x.1 ≠ p) → t'.get p = some h) ∧
    (∀ p ∈ outdated reg seen, t'.get p = none ∧ t'.contains p = false) ∧
    (∀ p, p ∉ seen → p ∉ outdated reg seen → t'.get p = t.get p) ∧
    (∀ p, ¬ (p ∈ seen ∧ p ∈ outdated reg seen)) := by
  subst hseen
  have hall := get_applied t listed reg
  dsimp only
  refine ⟨hall, ?_, ?_, ?_, fun p => outdated_disjoint_seen reg _ p⟩
  · intro pre p h post e hpost
    rw [hall, applied, e, lastFor_of_split pre post p h hpost]
  · intro p hp
    have hns : p ∉ listed.map (·.1) := fun hm => outdated_disjoint_seen reg _ p ⟨hm, hp⟩
    have hg : (applyChanges t (listed.map (fun x => Change.insert x.1 x.2)
        ++ (outdated reg (listed.map (·.1))).map Change.remove)).get p = none := by
      rw [hall, applied]
      have hl : lastFor listed p = none := by
        cases hl : lastFor listed p with
        | none => rfl
        | some a =>
          obtain ⟨pre, post, e, -⟩ := lastFor_some listed p a hl
          exact absurd (by rw [e]; simp) hns
      rw [hl]
      simp only
      rw [if_pos ((mem_outdated_iff _ _ _).1 hp)]
    exact ⟨hg, (Tab.contains_eq_false_iff _ _).2 hg⟩
  · intro p hns ho
    rw [hall, applied]
    have hl : lastFor listed p = none := by
      cases hl : lastFor listed p with
      | none => rfl
      | some a =>
        obtain ⟨pre, post, e, -⟩ := lastFor_some listed p a hl
        exact absurd (by rw [e]; simp) hns
    rw [hl]
    simp only
    rw [if_neg (fun hh => ho ((mem_outdated_iff _ _ _).2 hh))]

/-- `routing_after_table` for the queue of one PAT (`patChanges`) -/
theorem routing_after_pat (t : Tab Handler) (c : Ctx) (reg : List Nat) (body : Bytes) :
    let listed := built c.nextTag (patRequests (specPat body))
    let seen := (specPat body).map PatEntry.pid
    let t' := applyChanges t (patChanges c reg body)
    (∀ p, t'.get p = applied t.get listed reg p) ∧
    (∀ pre p h post, listed = pre ++ (p, h) :: post → (∀ x ∈ post, x.1 ≠ p) → t'.get p = some h) ∧
    (∀ p ∈ outdated reg seen, t'.get p = none ∧ t'.contains p = false) ∧
    (∀ p, p ∉ seen → p ∉ outdated reg seen → t'.get p = t.get p) :=
  have h := routing_after_table t (built c.nextTag (patRequests (specPat body))) reg
    ((specPat body).map PatEntry.pid) (by rw [built_pids, patRequests_pids])
  ⟨h.1, h.2.1, h.2.2.1, h.2.2.2.1⟩

/-- `routing_after_table` for the queue of one PMT (`pmtChanges`) -/
theorem routing_after_pmt (t : Tab Handler) (c : Ctx) (pmtPid : Nat) (reg : List Nat) (body : Bytes) :
    let listed := built c.nextTag
      (pmtRequests pmtPid (specPcrPid body) (specProgramDescBytes body) (streamsOf body))
    let seen := (streamsOf body).map StreamInfo.pid
    let t' := applyChanges t (pmtChanges c pmtPid reg body)
    (∀ p, t'.get p = applied t.get listed reg p) ∧
    (∀ pre p h post, listed = pre ++ (p, h) :: post → (∀ x ∈ post, x.1 ≠ p) → t'.get p = some h) ∧
    (∀ p ∈ outdated reg seen, t'.get p = none ∧ t'.contains p = false) ∧
    (∀ p, p ∉ seen → p ∉ outdated reg seen → t'.get p = t.get p) :=
  have h := routing_after_table t (built c.nextTag
      (pmtRequests pmtPid (specPcrPid body) (specProgramDescBytes body) (streamsOf body))) reg
    ((streamsOf body).map StreamInfo.pid) (by rw [built_pids, pmtRequests_pids])
  ⟨h.1, h.2.1, h.2.2.1, h.2.2.2.1⟩

/-- a PID whose slot was emptied stops being handled by the handler the table had installed: when
it next appears the application is asked again (`ByPid`), exactly as for a never-seen PID (C18) -/
theorem dropped_pid_reoffered {t' : Tab Handler} (c : Ctx) (p : Nat) (hg : t'.get p = none) :
    ensure sem t' c p = .ok (t'.insert p (construct c (.byPid p)).1, (construct c (.byPid p)).2) := by
  have := (C18.orphan_pid_reoffered sem t' c p hg).1
  rw [this]; rfl

/-- a packet on a PID whose slot holds `h` is consumed by exactly `h` (C06) -/
theorem packet_on_listed_pid_handled (t' : Tab Handler) (c : Ctx) (pk : Pk) (h : Handler)
    (hg : t'.get pk.pid = some h) (hf : pk.flagged = false) :
    specStep sem (t', c) pk =
      (App.consume h c pk >>= fun x => R.ok (applyChanges (t'.insert pk.pid x.1) x.2.2, x.2.1)) :=
  specStep_consume_of_contains sem t' c pk h
    ((Tab.contains_eq_true_iff _ _).2 ⟨h, hg⟩) hf hg

/-! ### from the packet that completes the section to the next packet -/

/-- the PAT filter, on a packet that completes one section (table_id 0) passing the CRC layer:
answers with exactly the requests / queue of `pat_new_table_effect` and remembers the PIDs listed -/
theorem pat_handler_applies_section (s : Psi.St) (reg : List Nat) (c : Ctx) (pk : Pk) (s' : Psi.St)
    (d : Psi.Delivery)
    (hP : Psi.consume Psi.table s pk.bytes = .ok (s', [d]))
    (hcrc : Psi.crcPass c.cfg.bypassCrc d.bytes = .ok true)
    (htid : byteD d.bytes 0 = 0) :
    App.consume (.pat s reg) c pk = .ok (.pat s' ((specPat (sectionBody d.bytes)).map PatEntry.pid),
      ctxAfter c (patRequests (specPat (sectionBody d.bytes))), patChanges c reg (sectionBody d.bytes)) :=
  consume_pat_one s reg c pk s' d hP hcrc htid

/-- the same for a PMT filter: the SAME instance (`pid`, `prog`) continues with `reg` := PIDs listed -/
theorem pmt_handler_applies_section (pid prog : Nat) (s : Psi.St) (reg : List Nat) (c : Ctx) (pk : Pk)
    (s' : Psi.St) (d : Psi.Delivery)
    (hP : Psi.consume Psi.table s pk.bytes = .ok (s', [d]))
    (hcrc : Psi.crcPass c.cfg.bypassCrc d.bytes = .ok true)
    (hacc : specPmtAccept (sectionBody d.bytes)) (htid : byteD d.bytes 0 = 2) :
    App.consume (.pmt pid prog s reg) c pk =
      .ok (.pmt pid prog s' ((streamsOf (sectionBody d.bytes)).map StreamInfo.pid),
        ctxAfter c (pmtRequests pid (specPcrPid (sectionBody d.bytes))
          (specProgramDescBytes (sectionBody d.bytes)) (streamsOf (sectionBody d.bytes))),
        pmtChanges c pid reg (sectionBody d.bytes)) :=
  consume_pmt_one pid prog s reg c pk s' d hP hcrc hacc htid

/-- C18 for the application: whatever handler consumed packet `pk` and whatever it queued, the very
next packet `pk2` (ANY PID, also `pk.pid` itself) is dispatched on the table with all of `chg`
applied.  Stated for the real loops (`pushModel`). -/
theorem takes_effect_next_packet (t : Tab Handler) (c : Ctx) (pk pk2 : Pk) (rest : List Pk)
    (t1 : Tab Handler) (c1 : Ctx) (h h' : Handler) (c' : Ctx) (chg : List (Change Handler))
    (hf : pk.flagged = false)
    (hE : ensure sem t c pk.pid = .ok (t1, c1))
    (hg : t1.get pk.pid = some h)
    (hC : App.consume h c1 pk = .ok (h', c', chg)) :
    pushModel sem (t, c) (pk :: pk2 :: rest) =
      (specStep sem (applyChanges (t1.insert pk.pid h') chg, c') pk2 >>= fun tc =>
        pushModel sem tc rest) :=
  C18.changes_in_force_at_k_plus_1 sem t c pk pk2 rest t1 c1 h h' c' chg hf hE hg hC

/-- … instantiated for a PAT version: the table that dispatches the packet after the one completing
the section is exactly `t'` = (table with the filter's own state stored) + `patChanges`, whose slots
`routing_after_pat` describes -/
theorem takes_effect_next_packet_pat (t : Tab Handler) (c : Ctx) (pk pk2 : Pk) (rest : List Pk)
    (t1 : Tab Handler) (c1 : Ctx) (s : Psi.St) (reg : List Nat) (s' : Psi.St) (d : Psi.Delivery)
    (hf : pk.flagged = false)
    (hE : ensure sem t c pk.pid = .ok (t1, c1))
    (hg : t1.get pk.pid = some (.pat s reg))
    (hP : Psi.consume Psi.table s pk.bytes = .ok (s', [d]))
    (hcrc : Psi.crcPass c1.cfg.bypassCrc d.bytes = .ok true)
    (htid : byteD d.bytes 0 = 0) :
    let body := sectionBody d.bytes
    let t' := applyChanges (t1.insert pk.pid (.pat s' ((specPat body).map PatEntry.pid)))
      (patChanges c1 reg body)
    pushModel sem (t, c) (pk :: pk2 :: rest) =
      (specStep sem (t', ctxAfter c1 (patRequests (specPat body))) pk2 >>= fun tc =>
        pushModel sem tc rest) :=
  takes_effect_next_packet t c pk pk2 rest t1 c1 _ _ _ _ hf hE hg
    (consume_pat_one s reg c1 pk s' d hP hcrc htid)

/-- … and for a PMT version -/
theorem takes_effect_next_packet_pmt (t : Tab Handler) (c : Ctx) (pk pk2 : Pk) (rest : List Pk)
    (t1 : Tab Handler) (c1 : Ctx) (pid prog : Nat) (s : Psi.St) (reg : List Nat) (s' : Psi.St)
    (d : Psi.Delivery)
    (hf : pk.flagged = false)
    (hE : ensure sem t c pk.pid = .ok (t1, c1))
    (hg : t1.get pk.pid = some (.pmt pid prog s reg))
    (hP : Psi.consume Psi.table s pk.bytes = .ok (s', [d]))
    (hcrc : Psi.crcPass c1.cfg.bypassCrc d.bytes = .ok true)
    (hacc : specPmtAccept (sectionBody d.bytes)) (htid : byteD d.bytes 0 = 2) :
    let body := sectionBody d.bytes
    let t' := applyChanges (t1.insert pk.pid (.pmt pid prog s' ((streamsOf body).map StreamInfo.pid)))
      (pmtChanges c1 pid reg body)
    pushModel sem (t, c) (pk :: pk2 :: rest) =
      (specStep sem (t', ctxAfter c1 (pmtRequests pid (specPcrPid body) (specProgramDescBytes body)
        (streamsOf body))) pk2 >>= fun tc => pushModel sem tc rest) :=
  takes_effect_next_packet t c pk pk2 rest t1 c1 _ _ _ _ hf hE hg
    (consume_pmt_one pid prog s reg c1 pk s' d hP hcrc hacc htid)

/-! ### between tables the routing is stable -/

/-- a packet consumed by an elementary-stream handler changes no slot other than its own, and its
own slot keeps the same handler instance (same tag): what a table installed stays in force until
a later table touches it -/
theorem es_packet_keeps_routing (t : Tab Handler) (c : Ctx) (pk : Pk) (tag : Nat) (f : PesFilter.F)
    (t2 : Tab Handler) (c2 : Ctx)
    (hg : t.get pk.pid = some (.pes tag f)) (hf : pk.flagged = false)
    (hs : specStep sem (t, c) pk = .ok (t2, c2)) :
    (∃ f', t2.get pk.pid = some (.pes tag f')) ∧ ∀ q, q ≠ pk.pid → t2.get q = t.get q := by
  rw [packet_on_listed_pid_handled t c pk _ hg hf] at hs
  cases hc : App.consume (.pes tag f) c pk with
  | panic s => rw [hc] at hs; cases hs
  | ok r =>
    obtain ⟨h', c', chg⟩ := r
    rw [hc] at hs
    obtain ⟨⟨f', rfl⟩, rfl⟩ := consume_pes_shape tag f c pk h' c' chg hc
    simp only [R.ok_bind, R.ok.injEq, Prod.mk.injEq] at hs
    obtain ⟨rfl, -⟩ := hs
    exact ⟨⟨f', Tab.get_insert_self _ _ _⟩, fun q hq => Tab.get_insert_ne _ _ _ _ hq⟩

/-- a packet on a PMT PID that completes no section changes nothing but the filter's reassembly
state: same instance, same remembered PIDs, no request, every other slot untouched -/
theorem pmt_packet_without_section_keeps_routing (t : Tab Handler) (c : Ctx) (pk : Pk)
    (pid prog : Nat) (s s' : Psi.St) (reg : List Nat)
    (hg : t.get pk.pid = some (.pmt pid prog s reg)) (hf : pk.flagged = false)
    (hP : Psi.consume Psi.table s pk.bytes = .ok (s', [])) :
    specStep sem (t, c) pk = .ok (t.insert pk.pid (.pmt pid prog s' reg), c) := by
  rw [packet_on_listed_pid_handled t c pk _ hg hf, consume_pmt_none pid prog s reg c pk s' hP]
  rfl

theorem pat_packet_without_section_keeps_routing (t : Tab Handler) (c : Ctx) (pk : Pk)
    (s s' : Psi.St) (reg : List Nat)
    (hg : t.get pk.pid = some (.pat s reg)) (hf : pk.flagged = false)
    (hP : Psi.consume Psi.table s pk.bytes = .ok (s', [])) :
    specStep sem (t, c) pk = .ok (t.insert pk.pid (.pat s' reg), c) := by
  rw [packet_on_listed_pid_handled t c pk _ hg hf, consume_pat_none s reg c pk s' hP]
  rfl

/-! ### removal of dropped PIDs -/

/-- If the SAME PMT filter instance — `.pmt pid prog s reg` with `reg` = the PIDs listed by the
previous version it applied (`bodyOld`) — applies a newer version that no longer lists `q`, then `q`
is outdated, `remove q` is queued, and after the queue is drained slot `q` is empty whatever the
table was. -/
theorem removal_partial (pid prog : Nat) (s : Psi.St) (bodyOld : Bytes) (c : Ctx) (pk : Pk) (s' : Psi.St)
    (d : Psi.Delivery) (q : Nat)
    (hP : Psi.consume Psi.table s pk.bytes = .ok (s', [d]))
    (hcrc : Psi.crcPass c.cfg.bypassCrc d.bytes = .ok true)
    (hacc : specPmtAccept (sectionBody d.bytes)) (htid : byteD d.bytes 0 = 2)
    (hq : q ∈ (streamsOf bodyOld).map StreamInfo.pid)
    (hdrop : q ∉ (streamsOf (sectionBody d.bytes)).map StreamInfo.pid) :
    let reg := (streamsOf bodyOld).map StreamInfo.pid
    let seen := (streamsOf (sectionBody d.bytes)).map StreamInfo.pid
    ∃ c' chg, App.consume (.pmt pid prog s reg) c pk = .ok (.pmt pid prog s' seen, c', chg) ∧
      q ∈ outdated reg seen ∧ Change.remove q ∈ chg ∧
      ∀ t : Tab Handler, (applyChanges t chg).get q = none ∧ (applyChanges t chg).contains q = false := by
  dsimp only
  have hout : q ∈ outdated ((streamsOf bodyOld).map StreamInfo.pid)
      ((streamsOf (sectionBody d.bytes)).map StreamInfo.pid) :=
    (mem_outdated _ _ _).2 ⟨pmt_pids_13bit bodyOld q hq, hq, hdrop⟩
  refine ⟨_, _, consume_pmt_one pid prog s _ c pk s' d hP hcrc hacc htid, hout, ?_, ?_⟩
  · unfold pmtChanges
    exact List.mem_append_right _ (List.mem_map.2 ⟨q, hout, rfl⟩)
  · intro t
    exact (routing_after_pmt t c pid _ (sectionBody d.bytes)).2.2.1 q hout

/-- the general form, for any remembered set `reg` (13-bit PIDs) -/
theorem removal_partial_any_reg (c : Ctx) (pmtPid : Nat) (reg : List Nat) (data : Bytes) (q : Nat)
    (hlen : 12 ≤ data.length) (htid : byteD data 0 = 2) (hacc : specPmtAccept (sectionBody data))
    (hq : q ∈ reg) (h13 : q < 8192) (hdrop : q ∉ (streamsOf (sectionBody data)).map StreamInfo.pid) :
    ∃ c' chg, pmtSection c pmtPid reg data = .ok (c', (streamsOf (sectionBody data)).map StreamInfo.pid, chg) ∧
      Change.remove q ∈ chg ∧ ∀ t : Tab Handler, (applyChanges t chg).get q = none := by
  have hout : q ∈ outdated reg ((streamsOf (sectionBody data)).map StreamInfo.pid) :=
    (mem_outdated _ _ _).2 ⟨h13, hq, hdrop⟩
  refine ⟨_, _, pmtSection_tid2 c pmtPid reg data hlen hacc htid, ?_, ?_⟩
  · unfold pmtChanges
    exact List.mem_append_right _ (List.mem_map.2 ⟨q, hout, rfl⟩)
  · intro t
    exact ((routing_after_pmt t c pmtPid reg (sectionBody data)).2.2.1 q hout).1

/-- … but a FRESH PMT filter (as built for every program entry of every PAT version) never queues a
removal, whatever the table lists: this is why F7 happens -/
theorem fresh_pmt_filter_removes_nothing (c : Ctx) (pmtPid : Nat) (body : Bytes) :
    pmtChanges c pmtPid [] body =
      (built c.nextTag (pmtRequests pmtPid (specPcrPid body) (specProgramDescBytes body)
        (streamsOf body))).map (fun x => Change.insert x.1 x.2) ∧
    ∀ (t : Tab Handler) (q : Nat), q ∉ (streamsOf body).map StreamInfo.pid →
      (applyChanges t (pmtChanges c pmtPid [] body)).get q = t.get q := by
  refine ⟨by unfold pmtChanges; rw [outdated_nil]; simp, ?_⟩
  intro t q hq
  refine (routing_after_pmt t c pmtPid [] body).2.2.2 q hq ?_
  rw [outdated_nil]; simp

/-! ### F7: the stale handler survives a PAT version bump (pinned behaviour, known finding) -/

open Ts.Lemmas.C05Run in
/-- History (bytes from the generator's `F7` / `F7control` probes, one `push`, run through
`App.runApp {}` = framing + the real dispatcher loops + PSI reassembly + CRC + tables + application):
PAT v0 {1 → 0x100}, PMT v0 on 0x100 {0x1b@0x101, 0x0f@0x102}, PAT v1 {1 → 0x100, 2 → 0x110},
PMT v1 on 0x100 {0x1b@0x101}, then a packet on 0x102.

* F7: no panic; before AND after the probe packet slot 0x102 holds the PES handler with tag 3 — the
  one built for `stream 0x100 0x0f 0x102` of PMT v0 — although the current PMT (applied by the filter
  with tag 4 that PAT v1 requested, now remembering only 0x101) no longer lists 0x102; the
  application is never asked `ByPid 0x102`.
* control (no PAT v1): the filter that applied PMT v0 applies v1: slot 0x102 is empty after the
  tables, and the probe packet makes the application get `ByPid 0x102` (tag 5), which records it. -/
theorem removal_counterexample :
    (∃ t c, runApp {} [patV0 ++ pmtV0 ++ patV1 ++ pmtV1] = .ok (t, c) ∧
      (∃ f, t.get 0x102 = some (.pes 3 f)) ∧
      (∃ s, t.get 0x100 = some (.pmt 0x100 1 s [0x101]))) ∧
    (∃ t c, runApp {} [f7Bytes] = .ok (t, c) ∧
      (∃ f, t.get 0x102 = some (.pes 3 f)) ∧
      Ev.construct (.stream 0x100 0x0f 0x102 0x101 [] []) 3 ∈ c.trace ∧
      Ev.construct (.pmt 0x100 1) 4 ∈ c.trace ∧
      (∀ tag, Ev.construct (.byPid 0x102) tag ∉ c.trace) ∧
      constructs c = [(.byPid 0, 0), (.pmt 0x100 1, 1), (.stream 0x100 0x1b 0x101 0x101 [] [], 2),
        (.stream 0x100 0x0f 0x102 0x101 [] [], 3), (.pmt 0x100 1, 4), (.pmt 0x110 2, 5),
        (.stream 0x100 0x1b 0x101 0x101 [] [], 6)]) ∧
    (∃ t c, runApp {} [patV0 ++ pmtV0 ++ pmtV1] = .ok (t, c) ∧ t.get 0x102 = none) ∧
    (∃ t c, runApp {} [ctlBytes] = .ok (t, c) ∧
      t.get 0x102 = some (.recorder 5) ∧
      Ev.construct (.byPid 0x102) 5 ∈ c.trace ∧ pkts c = [(5, 564)]) := by
  refine ⟨?_, ?_, ?_, ?_⟩
  · obtain ⟨t, c, hr, -, -, h100, -, h102, -⟩ := observe_some _ _ f7_tables
    exact ⟨t, c, hr, slot_pes _ _ h102, slot_pmt _ _ _ _ h100⟩
  · obtain ⟨t, c, hr, hc, -, -, -, h102, -⟩ := observe_some _ _ f7_run
    refine ⟨t, c, hr, slot_pes _ _ h102, ?_, ?_, ?_, hc⟩
    · rw [← mem_constructs, hc]; decide
    · rw [← mem_constructs, hc]; decide
    · intro tag hm
      rw [← mem_constructs, hc] at hm
      simp [constructsV0] at hm
  · obtain ⟨t, c, hr, -, -, -, -, h102, -⟩ := observe_some _ _ ctl_tables
    exact ⟨t, c, hr, slot_empty _ h102⟩
  · obtain ⟨t, c, hr, hc, hp, -, -, h102, -⟩ := observe_some _ _ ctl_run
    refine ⟨t, c, hr, slot_recorder _ _ h102, ?_, hp⟩
    rw [← mem_constructs, hc]; decide

/-! ### non-vacuity -/

/-! `patSectionEx` (`Ts/Spec/Routing.lean`): table_id 0, NIT on 0x10, program 1 on 0x100 -/

example : specPat (sectionBody patSectionEx) = [.network 0x10, .program 1 0x100] := by decide

/-- `pat_new_table_effect` on it, by a filter that had 0x100 and 0x200 registered: NIT request then
PMT request, tags 7 and 8, and 0x200 removed -/
example : ∃ c', patSection { cfg := {}, nextTag := 7 } [0x100, 0x200] patSectionEx =
      .ok (c', [0x10, 0x100],
        [.insert 0x10 (.recorder 7), .insert 0x100 (.pmt 0x100 1 {} []), .remove 0x200]) ∧
    c'.nextTag = 9 ∧ c'.trace = [.construct (.pmt 0x100 1) 8, .construct (.nit 0x10) 7] := by
  have h := pat_new_table_effect { cfg := {}, nextTag := 7 } [0x100, 0x200] patSectionEx (by decide) (by decide)
  have e : specPat ((patSectionEx.drop 8).take (patSectionEx.length - 12)) = [.network 0x10, .program 1 0x100] := by
    decide
  dsimp only at h
  rw [e] at h
  have ho : outdated [0x100, 0x200] ([PatEntry.network 0x10, .program 1 0x100].map PatEntry.pid) = [0x200] := by
    decide +kernel
  rw [ho] at h
  exact ⟨_, h, rfl, rfl⟩

/-! `pmtSectionEx` (`Ts/Spec/Routing.lean`): table_id 2, body `pmtExample` (H.264 on 0x100, AAC on 0x101) -/

example : sectionBody pmtSectionEx = pmtExample := by decide
example : specPmtAccept (sectionBody pmtSectionEx) := by decide
example : streamsOf pmtExample
    = [⟨0x1b, 0x100, []⟩, ⟨0x0f, 0x101, [0x0a, 0x04, 0x65, 0x6e, 0x67, 0x00]⟩] := by
  have := (C16.pmt_roundtrip 7 0x100 15 []
    [⟨0x1b, 7, 0x100, 15, []⟩, ⟨0x0f, 7, 0x101, 15, [0x0a, 0x04, 0x65, 0x6e, 0x67, 0x00]⟩]
    (by decide) (by decide) (by decide)).2.2.2.2
  have e : pmtExample = encodePmt 7 0x100 15 []
    [⟨0x1b, 7, 0x100, 15, []⟩, ⟨0x0f, 7, 0x101, 15, [0x0a, 0x04, 0x65, 0x6e, 0x67, 0x00]⟩] := by decide
  unfold streamsOf
  rw [e, this]
  rfl

/-- the model run on it (PMT filter on 0x30 that had 0x100 and 0x1ff registered): two stream
requests, two PES filters (both types are PES), 0x1ff removed -/
example : (pmtSection { cfg := {}, nextTag := 2 } 0x30 [0x100, 0x1ff] pmtSectionEx).isOk = true := by
  decide +kernel

/-- the hypotheses of `removal_partial_any_reg` are satisfiable -/
example : ∃ c' chg, pmtSection { cfg := {} } 0x30 [0x100, 0x1ff] pmtSectionEx = .ok (c', [0x100, 0x101], chg) ∧
    Change.remove 0x1ff ∈ chg := by
  have hb : sectionBody pmtSectionEx = pmtExample := by decide
  have hs : (streamsOf (sectionBody pmtSectionEx)).map StreamInfo.pid = [0x100, 0x101] := by
    rw [hb]
    have := (C16.pmt_roundtrip 7 0x100 15 []
      [⟨0x1b, 7, 0x100, 15, []⟩, ⟨0x0f, 7, 0x101, 15, [0x0a, 0x04, 0x65, 0x6e, 0x67, 0x00]⟩]
      (by decide) (by decide) (by decide)).2.2.2.2
    have e : pmtExample = encodePmt 7 0x100 15 []
      [⟨0x1b, 7, 0x100, 15, []⟩, ⟨0x0f, 7, 0x101, 15, [0x0a, 0x04, 0x65, 0x6e, 0x67, 0x00]⟩] := by decide
    unfold streamsOf
    rw [e, this]
    rfl
  obtain ⟨c', chg, h1, h2, -⟩ := removal_partial_any_reg { cfg := {} } 0x30 [0x100, 0x1ff] pmtSectionEx 0x1ff
    (by decide) (by decide) (by decide) (by decide) (by decide) (by rw [hs]; decide)
  rw [hs] at h1
  exact ⟨c', chg, h1, h2⟩

/-- `routing_after_table` on a small table: last entry for PID 5 wins, outdated 9 is emptied, 3 keeps
its handler -/
example : let t : Tab Nat := [none, none, none, some 30, none, some 50, none, none, none, some 90]
    let t' := applyChanges t ([(5, 51), (7, 70), (5, 52)].map (fun x => Change.insert x.1 x.2)
      ++ (outdated [5, 9] [5, 7, 5]).map Change.remove)
    t'.get 5 = some 52 ∧ t'.get 7 = some 70 ∧ t'.get 9 = none ∧ t'.get 3 = some 30 := by
  decide +kernel

example : outdated [5, 9, 9000] [5, 7, 5] = [9] := by decide +kernel

/-- the hypotheses of `takes_effect_next_packet_pat` / `pat_handler_applies_section` are satisfiable:
the first packet of the F7 history, consumed by the initial PAT filter -/
example : ∃ s' d, Psi.consume Psi.table {} Ts.Lemmas.C05Run.patV0 = .ok (s', [d]) ∧
    Psi.crcPass false d.bytes = .ok true ∧ byteD d.bytes 0 = 0 ∧
    specPat (sectionBody d.bytes) = [.program 1 0x100] := by
  have h : (match Psi.consume Psi.table {} Ts.Lemmas.C05Run.patV0 with
      | .ok (_, [d]) =>
        (match Psi.crcPass false d.bytes with | .ok true => true | _ => false) &&
          byteD d.bytes 0 == 0 && decide (specPat (sectionBody d.bytes) = [.program 1 0x100])
      | _ => false) = true := by decide +kernel
  split at h
  · rename_i s' d heq
    simp only [Bool.and_eq_true, beq_iff_eq, decide_eq_true_eq] at h
    obtain ⟨⟨h1, h2⟩, h3⟩ := h
    split at h1
    · rename_i hc; exact ⟨s', d, heq, hc, h2, h3⟩
    · cases h1
  · cases h

end Ts.Props.C05
