#!/bin/sh
# Build the framework from files on disk only (offline).
set -e
cd "$(dirname "$0")"
export CARGO_NET_OFFLINE=true
python3 tools/gen_lean.py
python3 tools/gen_exprs.py
python3 tools/gen_stmts.py
python3 tools/gen_psi.py
python3 tools/gen_filters.py
python3 tools/gen_packet.py
python3 tools/gen_pes.py
python3 tools/gen_iters.py
python3 tools/gen_pmt.py
python3 tools/gen_tables.py
python3 tools/gen_push.py
(cd lean && lake build Ts driver)
(cd harness && CARGO_TARGET_DIR=target cargo build --release --offline)
(cd harness && CARGO_TARGET_DIR=target-fuzzing RUSTFLAGS="--cfg fuzzing" cargo build --release --offline)
mkdir -p work replays evidence
echo setup-ok
